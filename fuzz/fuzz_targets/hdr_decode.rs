//! C11 (fuzz tier): the engine's own entry decoder (`Block::read`, reached through hook H4) on
//! arbitrary block images, under ASan. Oracle inside the target: no crash / sanitizer report; an
//! entry that decodes lies completely inside the image and its payload is what the image holds
//! at that place (the decoder must never invent bytes).
#![no_main]
use libfuzzer_sys::fuzz_target;
use std::io::Write;

fuzz_target!(|data: &[u8]| {
    if data.len() < 4 {
        return;
    }
    // first two bytes: where to start decoding; the rest: the block image (padded to 1 KiB)
    let start = (u16::from_le_bytes([data[0], data[1]]) as usize) % 2048;
    let mut img = data[2..].to_vec();
    if img.len() < 1024 {
        img.resize(1024, 0);
    }
    let path = format!("/dev/shm/wverif-fuzz-hdr-{}", std::process::id());
    {
        let mut f = std::fs::File::create(&path).expect("scratch");
        f.write_all(&img).expect("write");
    }
    // precondition of every caller in the engine: a header fits at the offset being decoded
    let start = start.min(img.len() - 256);
    let limit = img.len() as u64;
    if let Ok((payload, consumed)) = walrus_rust::wal::verif::read_block_entry(&path, 0, limit, start as u64) {
        assert!(consumed == 256 + payload.len(), "consumed {} for a payload of {}", consumed, payload.len());
        assert!(start + consumed <= img.len(), "decoded entry [{}..{}) leaves the {}-byte image", start, start + consumed, img.len());
        assert_eq!(&img[start + 256..start + 256 + payload.len()], &payload[..], "payload differs from the image");
    }
    let _ = std::fs::remove_file(&path);
});

//! C18 (fuzz tier): byte strings are cut into commands (valid encodings built from the bytes,
//! raw chunks, mutated encodings) and applied to the metadata state machine; the property's
//! invariants are checked after every command and an Err must leave the state unchanged.
#![no_main]
use libfuzzer_sys::fuzz_target;
#[path = "/repo/distributed-walrus/src/metadata.rs"]
#[allow(dead_code)]
mod metadata;
use metadata::{ClusterState, Metadata, MetadataCmd};
use octopii::StateMachineTrait;
use std::collections::{BTreeMap, HashMap};

type Canon = (BTreeMap<String, (u64, u64, u64, BTreeMap<u64, u64>, BTreeMap<u64, u64>)>, BTreeMap<u64, String>);

fn canon(m: &Metadata) -> Canon {
    let st: ClusterState = bincode::deserialize(&m.snapshot()).expect("own snapshot decodes");
    (
        st.topics.into_iter().map(|(k, t)| (k, (t.current_segment, t.leader_node, t.last_sealed_entry_offset, t.sealed_segments.into_iter().collect(), t.segment_leaders.into_iter().collect()))).collect(),
        st.nodes.into_iter().collect(),
    )
}

fuzz_target!(|data: &[u8]| {
    let m = Metadata::new();
    let mut sealed: HashMap<(String, u64), (u64, u64)> = HashMap::new();
    let names = ["a", "b", "t_x_s_1", ""];
    let mut i = 0usize;
    let mut steps = 0;
    while i < data.len() && steps < 64 {
        steps += 1;
        let tag = data[i];
        i += 1;
        let take = |i: &mut usize, n: usize| -> Vec<u8> {
            let end = (*i + n).min(data.len());
            let v = data[*i..end].to_vec();
            *i = end;
            v
        };
        let bytes: Vec<u8> = match tag % 6 {
            0 => {
                let b = take(&mut i, 2);
                bincode::serialize(&MetadataCmd::CreateTopic { name: names[*b.first().unwrap_or(&0) as usize % 4].into(), initial_leader: *b.get(1).unwrap_or(&0) as u64 % 4 }).unwrap()
            }
            1 | 2 => {
                let b = take(&mut i, 10);
                let mut c = [0u8; 8];
                for (k, x) in b.iter().skip(2).enumerate().take(8) {
                    c[k] = *x;
                }
                let count = if tag & 0x40 != 0 { u64::from_le_bytes(c) } else { c[0] as u64 };
                bincode::serialize(&MetadataCmd::RolloverTopic { name: names[*b.first().unwrap_or(&0) as usize % 4].into(), new_leader: *b.get(1).unwrap_or(&0) as u64 % 4, sealed_segment_entry_count: count }).unwrap()
            }
            3 => {
                let b = take(&mut i, 1);
                bincode::serialize(&MetadataCmd::UpsertNode { node_id: *b.first().unwrap_or(&0) as u64 % 4, addr: "n:1".into() }).unwrap()
            }
            4 => {
                let n = (tag as usize >> 3) + 1;
                take(&mut i, n)
            }
            _ => {
                // a valid encoding with one byte replaced
                let b = take(&mut i, 3);
                let mut e = bincode::serialize(&MetadataCmd::RolloverTopic { name: "a".into(), new_leader: 1, sealed_segment_entry_count: 2 }).unwrap();
                let p = *b.first().unwrap_or(&0) as usize % e.len();
                e[p] = *b.get(1).unwrap_or(&0);
                e
            }
        };
        let before = canon(&m);
        let res = m.apply(&bytes);
        let after = canon(&m);
        if res.is_err() {
            assert_eq!(before, after, "an Err changed the state");
        }
        for (name, (current, leader, offset, sealed_segments, leaders)) in &after.0 {
            assert!(*current >= 1);
            assert!(leaders.keys().copied().eq(1..=*current), "segments with a leader of {:?}: {:?}, current {}", name, leaders.keys().collect::<Vec<_>>(), current);
            assert_eq!(leaders.get(current), Some(leader));
            assert!(sealed_segments.keys().copied().eq(1..*current), "sealed segments of {:?}: {:?}, current {}", name, sealed_segments.keys().collect::<Vec<_>>(), current);
            let sum: u128 = sealed_segments.values().map(|v| *v as u128).sum();
            assert_eq!(sum, *offset as u128);
            for (seg, count) in sealed_segments {
                let l = leaders[seg];
                let e = sealed.entry((name.clone(), *seg)).or_insert((*count, l));
                assert_eq!(*e, (*count, l), "sealed segment {} of {:?} changed", seg, name);
            }
        }
    }
});

//! C25 (fuzz tier): round trip and near-miss injectivity of the storage key codec.
#![no_main]
use libfuzzer_sys::fuzz_target;
#[path = "/repo/distributed-walrus/src/controller/types.rs"]
#[allow(dead_code)]
mod types;

fuzz_target!(|data: &[u8]| {
    if data.len() < 8 {
        return;
    }
    let seg = u64::from_le_bytes(data[..8].try_into().unwrap());
    let Ok(topic) = std::str::from_utf8(&data[8..]) else { return };
    let key = types::wal_key(topic, seg);
    let back = types::parse_wal_key(&key);
    assert_eq!(back, Some((topic.to_string(), seg)), "wal_key({:?}, {}) = {:?}", topic, seg, key);
    // a different pair that is a near miss must get a different key
    let other = (format!("{}_s_{}", topic, seg), seg ^ 1);
    assert_ne!(types::wal_key(&other.0, other.1), key);
    let shorter = topic.rsplitn(2, "_s_").last().unwrap_or("");
    if shorter != topic {
        assert_ne!(types::wal_key(shorter, seg), key);
    }
});

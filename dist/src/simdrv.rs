//! E7 driver side: generators and oracles for C22 (exactly-once PUT/GET), C23 (fencing) and C24
//! (client protocol framing). Every case runs in a child process (`wdist simexec`).
use crate::engine::*;
use crate::sim::{ClientKind, SimCase, SimClient, SimResult};
use proptest::prelude::*;
use serde::{Deserialize, Serialize};
use serde_json::{json, Value};
use std::collections::{BTreeMap, BTreeSet, HashMap};
use std::io::Write;
use std::process::{Command, Stdio};

static CTR: std::sync::atomic::AtomicU64 = std::sync::atomic::AtomicU64::new(0);

pub enum ChildOut {
    Result(SimResult),
    Panic(String),
    Harness(String),
}

pub fn run_child(case: &SimCase) -> ChildOut {
    let n = CTR.fetch_add(1, std::sync::atomic::Ordering::Relaxed);
    let base = format!("/dev/shm/wdist-{}-{}", std::process::id(), n);
    let _ = std::fs::remove_dir_all(&base);
    let exe = std::env::current_exe().unwrap();
    let mut child = match Command::new(exe).arg("simexec").env("WDIST_SIM_BASE", &base).env("WALRUS_QUIET", "1").stdin(Stdio::piped()).stdout(Stdio::piped()).stderr(Stdio::null()).spawn() {
        Ok(c) => c,
        Err(e) => return ChildOut::Harness(format!("spawn: {e}")),
    };
    let _ = child.stdin.take().unwrap().write_all(serde_json::to_string(case).unwrap().as_bytes());
    // read stdout concurrently (a large result must not block the child on a full pipe)
    let mut so = child.stdout.take().unwrap();
    let reader = std::thread::spawn(move || {
        let mut buf = Vec::new();
        let _ = std::io::Read::read_to_end(&mut so, &mut buf);
        buf
    });
    let t0 = std::time::Instant::now();
    let status = loop {
        match child.try_wait() {
            Ok(Some(st)) => break st,
            Ok(None) => {
                if t0.elapsed().as_secs() > 120 {
                    let _ = child.kill();
                    let _ = child.wait();
                    let _ = reader.join();
                    let _ = std::fs::remove_dir_all(&base);
                    return ChildOut::Harness("simulation child exceeded 120 s".into());
                }
                std::thread::sleep(std::time::Duration::from_millis(2));
            }
            Err(e) => return ChildOut::Harness(format!("wait: {e}")),
        }
    };
    let stdout = reader.join().unwrap_or_default();
    let _ = std::fs::remove_dir_all(&base);
    struct Out {
        stdout: Vec<u8>,
        status: std::process::ExitStatus,
    }
    let out = Out { stdout, status };
    let text = String::from_utf8_lossy(&out.stdout);
    for l in text.lines() {
        if let Some(r) = l.strip_prefix("@@RESULT ") {
            return match serde_json::from_str::<SimResult>(r) {
                Ok(r) => ChildOut::Result(r),
                Err(e) => ChildOut::Harness(format!("bad result: {e}")),
            };
        }
        if let Some(p) = l.strip_prefix("@@PANIC ") {
            return ChildOut::Panic(p.to_string());
        }
    }
    ChildOut::Harness(format!("child ended without result (status {:?})", out.status.code()))
}

// ------------------------------------------------------------------------------------------
// C22 / C23 cases

#[derive(Clone, Debug, Serialize, Deserialize, PartialEq, Eq, Hash)]
pub enum COp {
    Put { t: u8 },
    Get { t: u8 },
}

#[derive(Clone, Debug, Serialize, Deserialize, PartialEq, Eq, Hash)]
pub struct DataCase {
    /// node playing the metadata leader (0 = node 1)
    #[serde(default)]
    pub raft_leader: u8,
    pub nodes: u8,
    pub threshold: u8,
    pub ntopics: u8,
    pub monitor: bool,
    pub clients: Vec<(u8, Vec<COp>)>,
    pub schedule: Vec<u8>,
    pub drain_node: u8,
}

const TOPICS: [&str; 2] = ["logs", "t_x_s_1"];

/// single node, one producer per topic, any number of pure consumers: rollovers are fenced here
fn safe_rollover_strategy() -> BoxedStrategy<DataCase> {
    (
        1u8..=3,
        1u8..=2,
        any::<bool>(),
        proptest::collection::vec(1usize..14, 2),
        proptest::collection::vec(proptest::collection::vec((0u8..2).prop_map(|t| COp::Get { t }), 1..10), 0..3),
        proptest::collection::vec(any::<u8>(), 0..400),
        proptest::collection::vec(any::<bool>(), 14),
    )
        .prop_map(|(threshold, ntopics, monitor, puts, consumers, schedule, mix)| {
            let mut clients: Vec<(u8, Vec<COp>)> = Vec::new();
            for t in 0..ntopics {
                // the producer of topic t interleaves its PUTs with a few GETs of its own
                let mut ops = Vec::new();
                for k in 0..puts[t as usize] {
                    ops.push(COp::Put { t });
                    if mix[k % mix.len()] {
                        ops.push(COp::Get { t });
                    }
                }
                clients.push((1, ops));
            }
            for c in consumers {
                clients.push((1, c));
            }
            DataCase { raft_leader: 0, nodes: 1, threshold, ntopics, monitor, clients, schedule, drain_node: 1 }
        })
        .boxed()
}

/// the node `ensure_topic` picks as initial leader of a topic (same computation as the controller)
pub fn initial_leader(topic: &str, nodes: u8) -> u8 {
    use std::hash::{Hash, Hasher};
    let mut h = std::collections::hash_map::DefaultHasher::new();
    topic.hash(&mut h);
    ((h.finish() as usize) % nodes.max(1) as usize) as u8 + 1
}

/// multi-node shape in which a rollover is fenced: one topic whose initial segment leader is also
/// the metadata leader (it applies its own rollover before acknowledging the PUT that caused it),
/// one sequential producer that sends through any node, at most one rollover (fewer than 2 x
/// threshold PUTs), no Monitor; followers lag as the schedule likes, pure consumers anywhere
fn fenced_multinode_strategy() -> BoxedStrategy<DataCase> {
    (
        2u8..=3,
        1u8..=4,
        proptest::collection::vec(1u8..=3, 8),
        1usize..8,
        proptest::collection::vec((1u8..=3, proptest::collection::vec(Just(COp::Get { t: 0 }), 1..8)), 0..3),
        proptest::collection::vec(any::<u8>(), 0..400),
        1u8..=3,
        proptest::collection::vec(any::<bool>(), 8),
    )
        .prop_map(|(nodes, threshold, via, extra, consumers, schedule, drain_node, mix)| {
            let puts = (threshold as usize + extra).min(2 * threshold as usize - 1).max(1);
            // the producer hops between nodes: one lock-step client per hop would not be
            // sequential, so it is one client bound to one node; the node is generated
            let mut ops = Vec::new();
            for k in 0..puts {
                ops.push(COp::Put { t: 0 });
                if mix[k % mix.len()] {
                    ops.push(COp::Get { t: 0 });
                }
            }
            let mut clients = vec![(via[0], ops)];
            clients.extend(consumers);
            DataCase { raft_leader: initial_leader(TOPICS[0], nodes), nodes, threshold, ntopics: 1, monitor: false, clients, schedule, drain_node }
        })
        .boxed()
}

pub fn data_strategy() -> BoxedStrategy<DataCase> {
    prop_oneof![3 => general_data_strategy(), 2 => safe_rollover_strategy(), 2 => fenced_multinode_strategy()].boxed()
}

fn general_data_strategy() -> BoxedStrategy<DataCase> {
    let op = prop_oneof![3 => (0u8..2).prop_map(|t| COp::Put { t }), 2 => (0u8..2).prop_map(|t| COp::Get { t })];
    (
        1u8..=3,
        1u8..=4,
        1u8..=2,
        prop_oneof![3 => Just(false), 1 => Just(true)],
        proptest::collection::vec((1u8..=3, proptest::collection::vec(op, 1..12)), 2..=4),
        proptest::collection::vec(any::<u8>(), 0..400),
        1u8..=3,
    )
        .prop_map(|(nodes, threshold, ntopics, monitor, clients, schedule, drain_node)| DataCase { raft_leader: 0, nodes, threshold, ntopics, monitor, clients, schedule, drain_node })
        .boxed()
}

fn payload(ci: usize, k: usize) -> String {
    format!("c{}-{:03}", ci, k)
}

pub fn to_sim(c: &DataCase) -> SimCase {
    let topics: Vec<String> = TOPICS.iter().take(c.ntopics.clamp(1, 2) as usize).map(|s| s.to_string()).collect();
    let mut clients = Vec::new();
    for (ci, (node, ops)) in c.clients.iter().enumerate() {
        let mut frames = Vec::new();
        let mut k = 0;
        for op in ops {
            match op {
                COp::Put { t } => {
                    frames.push(format!("PUT {} {}", topics[*t as usize % topics.len()], payload(ci, k)).into_bytes());
                    k += 1;
                }
                COp::Get { t } => frames.push(format!("GET {}", topics[*t as usize % topics.len()]).into_bytes()),
            }
        }
        clients.push(SimClient { node: *node, kind: ClientKind::Lockstep { frames } });
    }
    SimCase { nodes: c.nodes, threshold: c.threshold, topics, monitor: c.monitor, clients, schedule: c.schedule.clone(), drain_node: c.drain_node, max_steps: 400_000, data_plane: true, raft_leader: c.raft_leader }
}

pub struct Judged {
    pub c22: Option<String>,
    pub c23: Option<String>,
    pub features: BTreeSet<String>,
    pub inconclusive: Option<String>,
    pub summary: Value,
}

pub fn judge_data(c: &DataCase, out: ChildOut) -> Judged {
    let mut j = Judged { c22: None, c23: None, features: BTreeSet::new(), inconclusive: None, summary: Value::Null };
    let r = match out {
        ChildOut::Harness(e) => {
            j.inconclusive = Some(e);
            return j;
        }
        ChildOut::Panic(p) => {
            let m = format!("the cluster code panicked: {}", p);
            j.c22 = Some(m.clone());
            j.c23 = Some(m);
            return j;
        }
        ChildOut::Result(r) => r,
    };
    if let Some(e) = &r.setup_error {
        j.inconclusive = Some(format!("setup: {e}"));
        return j;
    }
    for f in &r.features {
        j.features.insert(f.clone());
    }
    if !r.clients_finished {
        j.inconclusive = Some(format!("clients did not finish within the step budget ({} steps, {} virtual ms)", r.steps, r.clock_ms));
        return j;
    }
    let sim = to_sim(c);
    let topics = sim.topics.clone();
    // the fenced multi-node shape rests on the first segment leader being the metadata leader
    if c.nodes >= 2 && c.raft_leader != 0 {
        let want = format!("CreateTopic {{ name: {:?}, initial_leader: {} }}", TOPICS[0], c.raft_leader);
        if !r.log.iter().any(|l| *l == want) {
            j.inconclusive = Some(format!("harness: expected {want} in the metadata log, got {:?}", r.log));
            return j;
        }
    }
    // acknowledged / failed PUTs per topic in per-client order, GET observations
    struct G {
        sent: u64,
        recv: u64,
        resp: String,
        who: String,
    }
    let mut acked: HashMap<String, Vec<(usize, usize, String, u64)>> = HashMap::new(); // topic -> (client, k, payload, ack step)
    let mut failed: HashMap<String, BTreeSet<String>> = HashMap::new();
    let mut gets: HashMap<String, Vec<G>> = HashMap::new();
    for (ci, cl) in sim.clients.iter().enumerate() {
        let ClientKind::Lockstep { frames } = &cl.kind else { continue };
        let mut k = 0;
        for (oi, f) in frames.iter().enumerate() {
            let text = String::from_utf8_lossy(f).to_string();
            let Some(o) = r.clients.get(ci).and_then(|v| v.get(oi)) else {
                j.inconclusive = Some("missing observation".into());
                return j;
            };
            let resp = o.resp.clone().unwrap_or_else(|| "<no response>".into());
            let parts: Vec<&str> = text.splitn(3, ' ').collect();
            if parts[0] == "PUT" {
                let p = payload(ci, k);
                k += 1;
                if resp == "OK" {
                    acked.entry(parts[1].to_string()).or_default().push((ci, k - 1, p, o.resp_step));
                } else {
                    failed.entry(parts[1].to_string()).or_default().insert(p);
                    j.features.insert("put_answered_err".into());
                }
            } else {
                gets.entry(parts[1].to_string()).or_default().push(G { sent: o.sent_step, recv: o.resp_step, resp, who: format!("client {} op {}", ci, oi) });
            }
        }
    }
    let mut stamp = r.steps + 10;
    for t in &topics {
        for resp in r.drain.get(t).cloned().unwrap_or_default() {
            gets.entry(t.clone()).or_default().push(G { sent: stamp, recv: stamp + 1, resp, who: "final drain".into() });
            stamp += 2;
        }
    }
    j.summary = json!({
        "nodes": c.nodes, "threshold": c.threshold, "topics": topics, "monitor": c.monitor,
        "client_ops": sim.clients.iter().map(|c| match &c.kind { ClientKind::Lockstep { frames } => frames.iter().map(|f| String::from_utf8_lossy(f).to_string()).collect::<Vec<_>>(), _ => vec![] }).collect::<Vec<_>>(),
        "responses": r.clients.iter().map(|v| v.iter().map(|o| o.resp.clone().unwrap_or_default()).collect::<Vec<_>>()).collect::<Vec<_>>(),
        "drain": r.drain, "metadata_log": r.log, "steps": r.steps, "virtual_ms": r.clock_ms,
    });
    // ---- C23
    if let Some(v) = r.fencing_violations.first() {
        j.c23 = Some(format!("{} ({} such events)", v, r.fencing_violations.len()));
    }
    // ---- C22
    for t in &topics {
        let a = acked.get(t).cloned().unwrap_or_default();
        let f = failed.get(t).cloned().unwrap_or_default();
        let g = gets.get(t).map(|v| v.iter().collect::<Vec<_>>()).unwrap_or_default();
        let mut delivered: HashMap<String, usize> = HashMap::new();
        let mut order: Vec<(&G, String)> = Vec::new();
        for x in &g {
            if let Some(p) = x.resp.strip_prefix("OK ") {
                if x.who != "final drain" {
                    j.features.insert("client_get_returned_payload".into());
                }
                *delivered.entry(p.to_string()).or_insert(0) += 1;
                order.push((x, p.to_string()));
            } else if x.resp == "EMPTY" {
            } else {
                // a GET that fails is not a property violation by itself, but it must not eat data
                j.features.insert("get_answered_err".into());
            }
        }
        for (p, n) in &delivered {
            let known = a.iter().any(|x| &x.2 == p) || f.contains(p);
            if !known {
                j.c22 = Some(format!("topic {:?}: GET returned {:?}, which no PUT on this topic carried", t, p));
                return j;
            }
            if *n > 1 {
                j.c22 = Some(format!("topic {:?}: payload {:?} was returned by {} GETs", t, p, n));
                return j;
            }
        }
        // every acknowledged PUT returned (the final drain ended with EMPTY)
        let drained = r.drain.get(t).map(|v| v.last().map(|l| l == "EMPTY").unwrap_or(false)).unwrap_or(false);
        for (ci, k, p, _) in &a {
            if !delivered.contains_key(p) {
                if drained {
                    j.c22 = Some(format!(
                        "topic {:?}: PUT {:?} (client {}, #{}) was answered OK but no GET returned it; the final drain through node {} answered EMPTY ({} of {} acknowledged payloads delivered)",
                        t, p, ci, k, c.drain_node, a.iter().filter(|x| delivered.contains_key(&x.2)).count(), a.len()
                    ));
                } else {
                    j.inconclusive = Some("final drain did not reach EMPTY".into());
                }
                return j;
            }
        }
        // per-producer order between GETs ordered in real time
        for (i, (g1, p1)) in order.iter().enumerate() {
            for (g2, p2) in order.iter().skip(i + 1) {
                let (early, late, pe, pl) = if g1.recv < g2.sent { (g1, g2, p1, p2) } else if g2.recv < g1.sent { (g2, g1, p2, p1) } else { continue };
                let ia = a.iter().find(|x| &x.2 == pe);
                let ib = a.iter().find(|x| &x.2 == pl);
                if let (Some(x), Some(y)) = (ia, ib) {
                    if x.0 == y.0 && x.1 > y.1 {
                        j.c22 = Some(format!("topic {:?}: {} returned {:?} before {} returned the same producer's earlier payload {:?}", t, early.who, pe, late.who, pl));
                        return j;
                    }
                }
            }
        }
        if !a.is_empty() {
            j.features.insert("acked_puts".into());
        }
    }
    j
}

fn data_report(prop: &str, c: &DataCase, j: Judged, which: u8) -> CaseReport {
    let mut rep = CaseReport::default();
    rep.features = j.features.clone();
    rep.inconclusive = j.inconclusive.clone();
    let rolled = j.features.contains("rollover_in_log");
    rep.nontrivial = j.inconclusive.is_none()
        && if which == 22 {
            j.features.contains("rollover_applied_while_put_in_flight")
                || j.features.contains("two_or_more_rollovers_of_a_topic")
                || (c.nodes >= 2 && j.features.contains("acked_puts") && j.features.contains("client_get_returned_payload"))
        } else {
            rolled || (c.nodes >= 2 && j.features.contains("acked_puts"))
        };
    let v = if which == 22 { j.c22.clone() } else { j.c23.clone() };
    if let Some(m) = v {
        rep.violation = Some((m.clone(), json!({"kind": "sim-data", "property": prop, "which": which, "case": c, "message": m, "observed": j.summary})));
    }
    rep.sample = Some(j.summary);
    rep
}

pub fn replay_data(body: &Value) -> Result<Option<String>, String> {
    let c: DataCase = serde_json::from_value(body.get("case").cloned().ok_or("no case")?).map_err(|e| e.to_string())?;
    let which = body.get("which").and_then(|x| x.as_u64()).unwrap_or(22) as u8;
    let j = judge_data(&c, run_child(&to_sim(&c)));
    if let Some(i) = j.inconclusive {
        return Err(i);
    }
    Ok(if which == 22 { j.c22 } else { j.c23 })
}

/// Known finding C22-rollover-count-race: rollovers are only safe when nothing can append to the
/// segment between the capture of its count and the application of the rollover on the segment
/// leader - i.e. a single node (the metadata leader applies synchronously) with at most one
/// producer per topic and no Monitor loop (a second proposer). Every other generated case runs with a threshold no PUT count reaches.
pub fn exclude_rollover_race(c: &DataCase) -> (DataCase, bool) {
    let mut producers: HashMap<u8, BTreeSet<usize>> = HashMap::new();
    for (ci, (_, ops)) in c.clients.iter().enumerate() {
        for op in ops {
            if let COp::Put { t } = op {
                producers.entry(*t % c.ntopics.clamp(1, 2)).or_default().insert(ci);
            }
        }
    }
    let single_node = c.nodes <= 1 && !c.monitor && producers.values().all(|s| s.len() <= 1);
    let puts: usize = c.clients.iter().map(|(_, ops)| ops.iter().filter(|o| matches!(o, COp::Put { .. })).count()).sum();
    let fenced_multi = c.nodes >= 2
        && c.ntopics == 1
        && !c.monitor
        && producers.values().all(|s| s.len() <= 1)
        && c.raft_leader == initial_leader(TOPICS[0], c.nodes)
        && puts < 2 * c.threshold.max(1) as usize;
    let safe = single_node || fenced_multi;
    if safe {
        (c.clone(), false)
    } else {
        let mut d = c.clone();
        d.threshold = 200;
        (d, true)
    }
}

pub fn data_search(ctx: &Ctx, which: u8, cases: usize) {
    let prop = ctx.prop.clone();
    let excl = exclusions_for(&ctx.prop);
    let s = Search {
        name: "cluster-simulation".to_string(),
        strategy: Box::new(data_strategy),
        run: Box::new(move |c0: &DataCase| {
            let (c, changed) = if excl.contains("rollover-with-concurrent-or-lagging-appends") { exclude_rollover_race(c0) } else { (c0.clone(), false) };
            let c = &c;
            let j = judge_data(c, run_child(&to_sim(c)));
            let mut rep = data_report(&prop, c, j, which);
            if changed {
                rep.excluded.insert("rollover-with-concurrent-or-lagging-appends".into(), 1);
            }
            return rep;
            #[allow(unreachable_code)]
            data_report(&prop, c, judge_data(c, ChildOut::Harness(String::new())), which)
        }),
        cases,
        workers: 12,
        max_shrink_iters: 150,
        shrink_secs: 300,
    };
    run_search(ctx, &s);
}

// ------------------------------------------------------------------------------------------
// C24 cases

#[derive(Clone, Debug, Serialize, Deserialize, PartialEq, Eq, Hash)]
pub enum Fr {
    Register { t: u8 },
    Put { t: u8, payload: String },
    Get { t: u8 },
    State { t: u8 },
    Metrics,
    /// length prefix 0
    ZeroLen,
    /// announced length > 64 KiB; `body` bytes follow (0 = nothing follows)
    Oversized { announce: u32, body_frames: Vec<Fr>, raw_body: u16 },
    InvalidUtf8 { bytes: Vec<u8> },
    Unknown { verb: String },
    /// PUT without payload / GET without topic
    Incomplete { kind: u8 },
}

#[derive(Clone, Debug, Serialize, Deserialize, PartialEq, Eq, Hash)]
pub struct ProtoCase {
    pub frames: Vec<Fr>,
    /// chunk sizes the byte stream is cut into (cycled)
    pub chunking: Vec<u16>,
    pub schedule: Vec<u8>,
}

fn payload_strategy() -> BoxedStrategy<String> {
    prop_oneof![
        4 => "[a-zA-Z0-9]{1,40}",
        2 => "[ a-z]{1,30}",
        2 => "[a-z]{1,8}[ \t\n]{1,3}",
        1 => "[ \t]{1,3}[a-z]{1,8}",
        2 => any::<String>().prop_map(|s| s.chars().filter(|c| *c != '\0').take(60).collect::<String>()),
        1 => "[a-z\n]{1,20}",
        1 => Just("é日本語 ñ".to_string()),
        // long payloads: runs of one multi-byte character behind an ASCII pad of every length
        // (every alignment of character boundaries against byte offsets), and long arbitrary text
        2 => (0usize..9, prop_oneof![Just('日'), Just('é'), Just('😀'), Just('a'), Just(' ')], 90usize..800).prop_map(|(pad, ch, n)| {
            let mut s = "x".repeat(pad);
            s.extend(std::iter::repeat(ch).take(n));
            s.push('z');
            s
        }),
        1 => proptest::collection::vec(any::<char>().prop_filter("no NUL", |c| *c != '\0'), 150..1500).prop_map(|v| v.into_iter().collect::<String>()),
    ]
    .prop_filter("non-empty after trim_end", |s| !s.trim_end().is_empty())
    .boxed()
}

fn valid_fr() -> BoxedStrategy<Fr> {
    prop_oneof![
        1 => (0u8..2).prop_map(|t| Fr::Register { t }),
        6 => ((0u8..2), payload_strategy()).prop_map(|(t, payload)| Fr::Put { t, payload }),
        5 => (0u8..2).prop_map(|t| Fr::Get { t }),
        1 => (0u8..2).prop_map(|t| Fr::State { t }),
        1 => Just(Fr::Metrics),
    ]
    .boxed()
}

fn fr_strategy() -> BoxedStrategy<Fr> {
    prop_oneof![
        12 => valid_fr(),
        1 => Just(Fr::ZeroLen),
        3 => ((65_537u32..200_000), proptest::collection::vec(valid_fr(), 0..3), 0u16..300).prop_map(|(announce, body_frames, raw_body)| Fr::Oversized { announce, body_frames, raw_body }),
        1 => proptest::collection::vec(128u8..=255, 1..12).prop_map(|bytes| Fr::InvalidUtf8 { bytes }),
        1 => "[A-Z]{1,8}".prop_filter("not a verb", |v| !["REGISTER", "PUT", "GET", "STATE", "METRICS"].contains(&v.as_str())).prop_map(|verb| Fr::Unknown { verb }),
        1 => (0u8..3).prop_map(|kind| Fr::Incomplete { kind }),
    ]
    .boxed()
}

pub fn proto_strategy() -> BoxedStrategy<ProtoCase> {
    (proptest::collection::vec(fr_strategy(), 1..14), proptest::collection::vec(1u16..200, 1..6), proptest::collection::vec(any::<u8>(), 0..200))
        .prop_map(|(frames, chunking, schedule)| ProtoCase { frames, chunking, schedule })
        .boxed()
}

fn enc(body: &[u8]) -> Vec<u8> {
    let mut v = (body.len() as u32).to_le_bytes().to_vec();
    v.extend_from_slice(body);
    v
}

fn topic(t: u8) -> &'static str {
    TOPICS[t as usize % 2]
}

/// what a frame-synchronised server answers: one class per frame
#[derive(Clone, Debug, PartialEq)]
pub enum Expect {
    Ok,
    GetOf(u8),
    Json,
    Err,
}

/// bytes of one frame and the expected responses
fn wire(f: &Fr, out: &mut Vec<u8>, exp: &mut Vec<(Expect, String)>, puts: &mut Vec<(u8, String)>) {
    match f {
        Fr::Register { t } => {
            out.extend(enc(format!("REGISTER {}", topic(*t)).as_bytes()));
            exp.push((Expect::Ok, "REGISTER".into()));
        }
        Fr::Put { t, payload } => {
            out.extend(enc(format!("PUT {} {}", topic(*t), payload).as_bytes()));
            exp.push((Expect::Ok, format!("PUT {:?}", payload)));
            puts.push((*t, payload.trim_end().to_string()));
        }
        Fr::Get { t } => {
            out.extend(enc(format!("GET {}", topic(*t)).as_bytes()));
            exp.push((Expect::GetOf(*t), "GET".into()));
        }
        Fr::State { t } => {
            out.extend(enc(format!("STATE {}", topic(*t)).as_bytes()));
            exp.push((Expect::Json, "STATE".into()));
        }
        Fr::Metrics => {
            out.extend(enc(b"METRICS"));
            exp.push((Expect::Json, "METRICS".into()));
        }
        Fr::ZeroLen => {
            out.extend(0u32.to_le_bytes());
            exp.push((Expect::Err, "zero-length frame".into()));
        }
        Fr::Oversized { announce, body_frames, raw_body } => {
            // the frame is `announce` bytes long: its body is made of what looks like frames
            // (and filler), all of which belongs to the oversized frame and must be skipped
            out.extend(announce.to_le_bytes());
            let mut body = Vec::new();
            let mut e2 = Vec::new();
            let mut p2 = Vec::new();
            for b in body_frames {
                wire(b, &mut body, &mut e2, &mut p2);
            }
            body.extend(std::iter::repeat(b'z').take(*raw_body as usize));
            body.resize(*announce as usize, b' ');
            out.extend(body);
            exp.push((Expect::Err, format!("oversized frame ({} bytes announced and sent)", announce)));
        }
        Fr::InvalidUtf8 { bytes } => {
            out.extend(enc(bytes));
            exp.push((Expect::Err, "invalid utf-8".into()));
        }
        Fr::Unknown { verb } => {
            out.extend(enc(format!("{} x y", verb).as_bytes()));
            exp.push((Expect::Err, format!("unknown verb {}", verb)));
        }
        Fr::Incomplete { kind } => {
            let s = match kind % 3 {
                0 => "PUT logs",
                1 => "GET",
                _ => "PUT",
            };
            out.extend(enc(s.as_bytes()));
            exp.push((Expect::Err, format!("incomplete command {:?}", s)));
        }
    }
}

pub fn proto_to_sim(c: &ProtoCase) -> (SimCase, Vec<(Expect, String)>, Vec<(u8, String)>) {
    let mut bytes = Vec::new();
    let mut exp = Vec::new();
    let mut puts = Vec::new();
    // topics exist up front (registered by the setup phase); the stream ends with a probe pair
    for f in &c.frames {
        wire(f, &mut bytes, &mut exp, &mut puts);
    }
    let probe = "probe-after-everything";
    wire(&Fr::Put { t: 0, payload: probe.into() }, &mut bytes, &mut exp, &mut puts);
    let mut chunks = Vec::new();
    let mut i = 0;
    let mut k = 0;
    while i < bytes.len() {
        let n = (c.chunking[k % c.chunking.len()] as usize).max(1).min(bytes.len() - i);
        // oversized bodies would make thousands of chunks: cap the number
        let n = if bytes.len() > 20_000 { n.max(bytes.len() / 200) } else { n };
        chunks.push(bytes[i..(i + n).min(bytes.len())].to_vec());
        i += n;
        k += 1;
    }
    let sim = SimCase {
        nodes: 1,
        threshold: 200,
        topics: TOPICS.iter().map(|s| s.to_string()).collect(),
        monitor: false,
        clients: vec![SimClient { node: 1, kind: ClientKind::Pipelined { chunks } }],
        schedule: c.schedule.clone(),
        drain_node: 1,
        max_steps: 300_000,
        data_plane: false,
        raft_leader: 0,
    };
    (sim, exp, puts)
}

fn unhex(s: &str) -> Vec<u8> {
    (0..s.len() / 2).filter_map(|i| u8::from_str_radix(&s[2 * i..2 * i + 2], 16).ok()).collect()
}

pub fn judge_proto(c: &ProtoCase, out: ChildOut) -> (Option<String>, BTreeSet<String>, Option<String>, Value) {
    let mut f = BTreeSet::new();
    let (sim, exp, puts) = proto_to_sim(c);
    let _ = sim;
    let r = match out {
        ChildOut::Harness(e) => return (None, f, Some(e), Value::Null),
        ChildOut::Panic(p) => return (Some(format!("the server panicked: {}", p)), f, None, Value::Null),
        ChildOut::Result(r) => r,
    };
    if let Some(e) = r.setup_error {
        return (None, f, Some(e), Value::Null);
    }
    if !r.clients_finished {
        return (None, f, Some("client did not finish".into()), Value::Null);
    }
    let raw = unhex(r.raw.first().map(|s| s.as_str()).unwrap_or(""));
    // parse response frames
    let mut resps: Vec<String> = Vec::new();
    let mut i = 0;
    while i + 4 <= raw.len() {
        let n = u32::from_le_bytes(raw[i..i + 4].try_into().unwrap()) as usize;
        if i + 4 + n > raw.len() {
            break;
        }
        resps.push(String::from_utf8_lossy(&raw[i + 4..i + 4 + n]).to_string());
        i += 4 + n;
    }
    let summary = json!({
        "frames": c.frames.iter().map(|f| format!("{:?}", f).chars().take(90).collect::<String>()).collect::<Vec<_>>(),
        "expected": exp.iter().map(|e| format!("{:?} <- {}", e.0, e.1)).collect::<Vec<_>>(),
        "responses": resps.iter().take(40).map(|s| s.chars().take(60).collect::<String>()).collect::<Vec<_>>(),
        "response_count": resps.len(),
    });
    let malformed_then_valid = c.frames.iter().enumerate().any(|(i, f)| matches!(f, Fr::ZeroLen | Fr::Oversized { .. } | Fr::InvalidUtf8 { .. } | Fr::Unknown { .. } | Fr::Incomplete { .. }) && i + 1 <= c.frames.len());
    if malformed_then_valid {
        f.insert("malformed_frame_followed_by_valid".into());
    }
    if c.frames.iter().any(|x| matches!(x, Fr::Oversized { .. })) {
        f.insert("oversized_frame".into());
    }
    if resps.len() != exp.len() {
        return (
            Some(format!(
                "{} frames were sent but {} responses came back: the connection lost frame synchronisation (expected classes {:?}, got {:?})",
                exp.len(),
                resps.len(),
                exp.iter().map(|e| format!("{:?}", e.0)).collect::<Vec<_>>(),
                resps.iter().take(8).map(|s| s.chars().take(24).collect::<String>()).collect::<Vec<_>>()
            )),
            f,
            None,
            summary,
        );
    }
    // class of every response and GET round trips (single connection, single node: FIFO)
    let mut queue: HashMap<u8, std::collections::VecDeque<String>> = HashMap::new();
    let mut pi = 0usize;
    for (k, ((e, what), got)) in exp.iter().zip(resps.iter()).enumerate() {
        match e {
            Expect::Ok => {
                if got != "OK" {
                    return (Some(format!("frame #{} ({}) was answered {:?}, expected OK", k, what, got)), f, None, summary);
                }
                if what.starts_with("PUT") {
                    let (t, p) = puts[pi].clone();
                    pi += 1;
                    queue.entry(t % 2).or_default().push_back(p);
                }
            }
            Expect::Err => {
                if !got.starts_with("ERR") {
                    return (Some(format!("frame #{} ({}) was answered {:?}, expected an ERR response", k, what, got)), f, None, summary);
                }
            }
            Expect::Json => {
                if !(got.starts_with('{') || got.starts_with("ERR")) {
                    return (Some(format!("frame #{} ({}) was answered {:?}", k, what, got.chars().take(40).collect::<String>())), f, None, summary);
                }
            }
            Expect::GetOf(t) => {
                let q = queue.entry(*t % 2).or_default();
                match q.pop_front() {
                    Some(p) => {
                        let want = format!("OK {}", p);
                        if *got != want {
                            return (Some(format!("frame #{} GET returned {:?} but the oldest unread PUT on that topic carried {:?} (payload must round-trip byte-identically, modulo trailing whitespace)", k, got, p)), f, None, summary);
                        }
                        f.insert("get_roundtrip_checked".into());
                    }
                    None => {
                        if got != "EMPTY" {
                            return (Some(format!("frame #{} GET on a drained topic was answered {:?}", k, got)), f, None, summary);
                        }
                    }
                }
            }
        }
    }
    (None, f, None, summary)
}

pub fn replay_proto(body: &Value) -> Result<Option<String>, String> {
    let c: ProtoCase = serde_json::from_value(body.get("case").cloned().ok_or("no case")?).map_err(|e| e.to_string())?;
    let (sim, _, _) = proto_to_sim(&c);
    let (v, _, inc, _) = judge_proto(&c, run_child(&sim));
    if let Some(i) = inc {
        return Err(i);
    }
    Ok(v)
}

pub fn proto_search(ctx: &Ctx, cases: usize) {
    let prop = ctx.prop.clone();
    let excluded = exclusions_for(&ctx.prop);
    let s = Search {
        name: "frame-streams".to_string(),
        strategy: Box::new(proto_strategy),
        run: Box::new(move |c0: &ProtoCase| {
            let mut rep = CaseReport::default();
            // known-finding exclusion by construction (see known_findings.json)
            let mut c = c0.clone();
            if excluded.contains("oversized-frame-with-body") {
                let before = c.frames.len();
                c.frames.retain(|f| !matches!(f, Fr::Oversized { .. }));
                if c.frames.len() != before {
                    rep.excluded.insert("oversized-frame-with-body".into(), (before - c.frames.len()) as u64);
                }
                if c.frames.is_empty() {
                    c.frames.push(Fr::Metrics);
                }
            }
            let (sim, _, _) = proto_to_sim(&c);
            let (v, f, inc, summary) = judge_proto(&c, run_child(&sim));
            rep.features = f.clone();
            rep.inconclusive = inc;
            rep.nontrivial = rep.inconclusive.is_none() && f.contains("malformed_frame_followed_by_valid");
            if let Some(m) = v {
                rep.violation = Some((m.clone(), json!({"kind": "sim-proto", "property": prop, "case": c, "message": m, "observed": summary})));
            }
            rep.sample = Some(summary);
            rep
        }),
        cases,
        workers: 12,
        max_shrink_iters: 200,
        shrink_secs: 300,
    };
    run_search(ctx, &s);
}

#[allow(dead_code)]
fn _unused(_: BTreeMap<u8, u8>) {}

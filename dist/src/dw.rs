//! The repository's distributed-walrus sources, included unmodified.
#![allow(dead_code, unused_imports, clippy::all)]
#[path = "/repo/distributed-walrus/src/bucket.rs"]
pub mod bucket;
#[path = "/repo/distributed-walrus/src/client.rs"]
pub mod client;
#[path = "/repo/distributed-walrus/src/config.rs"]
pub mod config;
#[path = "/repo/distributed-walrus/src/controller/mod.rs"]
pub mod controller;
#[path = "/repo/distributed-walrus/src/metadata.rs"]
pub mod metadata;
#[path = "/repo/distributed-walrus/src/monitor.rs"]
pub mod monitor;
#[path = "/repo/distributed-walrus/src/rpc.rs"]
pub mod rpc;

/// controller/types.rs once more, as a public module of its own (the controller keeps it private)
#[path = "/repo/distributed-walrus/src/controller/types.rs"]
pub mod wal_types;

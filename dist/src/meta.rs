//! E6: in-process checks of the metadata state machine (C18, C20 clause a) and of the storage key
//! codec (C25).
use crate::dw::wal_types::{parse_wal_key, wal_key};
use crate::engine::*;
use crate::metadata::{ClusterState, Metadata, MetadataCmd};
use octopii::StateMachineTrait;
use proptest::prelude::*;
use serde::{Deserialize, Serialize};
use serde_json::{json, Value};
use std::collections::{BTreeMap, BTreeSet, HashMap};

// ------------------------------------------------------------------------------------------
// commands

#[derive(Clone, Debug, Serialize, Deserialize, PartialEq, Eq, Hash)]
pub enum Cmd {
    Create { name: String, leader: u64 },
    Rollover { name: String, leader: u64, count: u64 },
    Upsert { node: u64, addr: String },
    /// raw bytes handed to apply()
    Raw(Vec<u8>),
    /// a valid encoding with one mutation
    Mutated { base: Box<Cmd>, pos: u16, byte: u8, truncate: bool },
}

pub fn encode(c: &Cmd) -> Vec<u8> {
    match c {
        Cmd::Create { name, leader } => bincode::serialize(&MetadataCmd::CreateTopic { name: name.clone(), initial_leader: *leader }).unwrap(),
        Cmd::Rollover { name, leader, count } => bincode::serialize(&MetadataCmd::RolloverTopic { name: name.clone(), new_leader: *leader, sealed_segment_entry_count: *count }).unwrap(),
        Cmd::Upsert { node, addr } => bincode::serialize(&MetadataCmd::UpsertNode { node_id: *node, addr: addr.clone() }).unwrap(),
        Cmd::Raw(b) => b.clone(),
        Cmd::Mutated { base, pos, byte, truncate } => {
            let mut b = encode(base);
            if b.is_empty() {
                return b;
            }
            let p = (*pos as usize) % b.len();
            if *truncate {
                b.truncate(p);
            } else {
                b[p] ^= (*byte).max(1);
            }
            b
        }
    }
}

pub fn topic_of(c: &Cmd) -> Option<&str> {
    match c {
        Cmd::Create { name, .. } | Cmd::Rollover { name, .. } => Some(name),
        _ => None,
    }
}

/// canonical rendering of the whole state (sorted maps)
#[derive(Clone, Debug, PartialEq, Eq, Serialize)]
pub struct Canon {
    topics: BTreeMap<String, (u64, u64, u64, BTreeMap<u64, u64>, BTreeMap<u64, u64>)>,
    nodes: BTreeMap<u64, String>,
}

pub fn canon(m: &Metadata) -> Result<Canon, String> {
    let snap = m.snapshot();
    let st: ClusterState = bincode::deserialize(&snap).map_err(|e| format!("the state machine's own snapshot does not decode: {}", e))?;
    Ok(Canon {
        topics: st
            .topics
            .into_iter()
            .map(|(k, t)| (k, (t.current_segment, t.leader_node, t.last_sealed_entry_offset, t.sealed_segments.into_iter().collect(), t.segment_leaders.into_iter().collect())))
            .collect(),
        nodes: st.nodes.into_iter().collect(),
    })
}

pub fn names_of(cmds: &[Cmd], out: &mut BTreeSet<String>) {
    for c in cmds {
        match c {
            Cmd::Create { name, .. } | Cmd::Rollover { name, .. } => {
                out.insert(name.clone());
            }
            Cmd::Mutated { base, .. } => names_of(std::slice::from_ref(base), out),
            _ => {}
        }
    }
}

/// the state as the rest of the system sees it: through the public getters (not through
/// snapshot(), whose bytes an implementation may cache)
pub fn view(m: &Metadata, names: &BTreeSet<String>) -> Canon {
    let mut topics = BTreeMap::new();
    for n in names {
        if let Some(t) = m.get_topic_state(n) {
            topics.insert(n.clone(), (t.current_segment, t.leader_node, t.last_sealed_entry_offset, t.sealed_segments.into_iter().collect(), t.segment_leaders.into_iter().collect()));
        }
    }
    Canon { topics, nodes: m.all_node_addrs().into_iter().collect() }
}

/// what the oracle remembers about sealed segments: (topic, segment) -> (count, leader)
type Sealed = HashMap<(String, u64), (u64, u64)>;

fn check_invariants(c: &Canon, sealed: &mut Sealed) -> Result<(), String> {
    for (name, (current, leader, offset, sealed_segments, leaders)) in &c.topics {
        if *current < 1 {
            return Err(format!("topic {:?}: current segment {}", name, current));
        }
        let want: BTreeSet<u64> = (1..=*current).collect();
        let have: BTreeSet<u64> = leaders.keys().copied().collect();
        if have != want {
            return Err(format!("topic {:?}: segments with a leader are {:?}, expected exactly 1..={}", name, have, current));
        }
        if leaders.get(current) != Some(leader) {
            return Err(format!("topic {:?}: leader of the open segment {} is {:?} but the topic leader is {}", name, current, leaders.get(current), leader));
        }
        let want_sealed: BTreeSet<u64> = (1..*current).collect();
        let have_sealed: BTreeSet<u64> = sealed_segments.keys().copied().collect();
        if have_sealed != want_sealed {
            return Err(format!("topic {:?}: sealed segments are {:?}, expected exactly 1..{}", name, have_sealed, current));
        }
        let sum: u128 = sealed_segments.values().map(|v| *v as u128).sum();
        if sum != *offset as u128 {
            return Err(format!("topic {:?}: cumulative sealed offset {} but the sealed counts sum to {}", name, offset, sum));
        }
        for (seg, count) in sealed_segments {
            let l = leaders.get(seg).copied().unwrap_or(0);
            match sealed.get(&(name.clone(), *seg)) {
                Some((c0, l0)) => {
                    if c0 != count || *l0 != l {
                        return Err(format!("topic {:?}: sealed segment {} changed from (count {}, leader {}) to (count {}, leader {})", name, seg, c0, l0, count, l));
                    }
                }
                None => {
                    sealed.insert((name.clone(), *seg), (*count, l));
                }
            }
        }
    }
    Ok(())
}

pub struct SeqOutcome {
    pub violation: Option<String>,
    pub features: BTreeSet<String>,
    pub responses: Vec<String>,
}

/// Apply a sequence to a fresh machine, checking everything after every command.
pub fn run_seq(cmds: &[Cmd]) -> SeqOutcome {
    let mut o = SeqOutcome { violation: None, features: BTreeSet::new(), responses: Vec::new() };
    let m = Metadata::new();
    let mut names = BTreeSet::new();
    names_of(cmds, &mut names);
    let mut sealed: Sealed = HashMap::new();
    let mut rolled: BTreeSet<String> = BTreeSet::new();
    let mut last_valid = false;
    let mut pending_bad = false;
    for (i, c) in cmds.iter().enumerate() {
        let before = match canon(&m) {
            Ok(c) => c,
            Err(e) => {
                o.violation = Some(e);
                return o;
            }
        };
        let bytes = encode(c);
        let res = std::panic::catch_unwind(std::panic::AssertUnwindSafe(|| m.apply(&bytes)));
        let res = match res {
            Ok(r) => r,
            Err(p) => {
                let msg = p.downcast_ref::<String>().cloned().or_else(|| p.downcast_ref::<&str>().map(|s| s.to_string())).unwrap_or_else(|| "panic".into());
                o.violation = Some(format!("command #{} {:?} panicked: {}", i, short(c), msg));
                return o;
            }
        };
        let after = match canon(&m) {
            Ok(c) => c,
            Err(e) => {
                o.violation = Some(e);
                return o;
            }
        };
        o.responses.push(match &res {
            Ok(b) => format!("Ok({})", String::from_utf8_lossy(b)),
            Err(e) => format!("Err({})", e.chars().take(40).collect::<String>()),
        });
        if res.is_err() && after != before {
            o.violation = Some(format!("command #{} {:?} returned Err but changed the state", i, short(c)));
            return o;
        }
        if let Err(e) = check_invariants(&after, &mut sealed) {
            o.violation = Some(format!("after command #{} {:?}: {}", i, short(c), e));
            return o;
        }
        // the same through the public getters; for the topics the commands name the two
        // observations must agree
        let v = view(&m, &names);
        if let Err(e) = check_invariants(&v, &mut sealed) {
            o.violation = Some(format!("after command #{} {:?} (state read through get_topic_state): {}", i, short(c), e));
            return o;
        }
        for (n, t) in &v.topics {
            if after.topics.get(n) != Some(t) {
                o.violation = Some(format!("after command #{} {:?}: snapshot() and get_topic_state({:?}) disagree: {:?} vs {:?}", i, short(c), n, after.topics.get(n), t));
                return o;
            }
        }
        // features
        let is_raw = matches!(c, Cmd::Raw(_) | Cmd::Mutated { .. });
        if is_raw && res.is_err() {
            o.features.insert("undecodable_command".into());
            if last_valid {
                pending_bad = true;
            }
        } else if res.is_ok() {
            if pending_bad {
                o.features.insert("undecodable_between_valid".into());
                pending_bad = false;
            }
            last_valid = true;
        }
        if let Some(t) = topic_of(c) {
            if rolled.contains(t) {
                o.features.insert("command_after_rollover_on_topic".into());
            }
            if matches!(c, Cmd::Rollover { .. }) && res.is_ok() {
                rolled.insert(t.to_string());
                o.features.insert("rollover_applied".into());
            }
            if matches!(c, Cmd::Rollover { .. }) && res.is_err() {
                o.features.insert("rollover_of_unknown_topic".into());
            }
        }
    }
    o
}

pub fn short(c: &Cmd) -> String {
    format!("{:?}", c).chars().take(120).collect()
}

fn seq_nontrivial(f: &BTreeSet<String>) -> bool {
    f.contains("command_after_rollover_on_topic") || f.contains("undecodable_between_valid")
}

// ------------------------------------------------------------------------------------------
// strategies

fn name_strategy() -> BoxedStrategy<String> {
    prop_oneof![
        6 => prop_oneof![Just("logs".to_string()), Just("orders".to_string()), Just("t_x_s_1".to_string())],
        2 => "[a-z_]{0,12}",
        1 => any::<String>().prop_map(|s| s.chars().take(40).collect()),
    ]
    .boxed()
}

fn valid_cmd_strategy() -> BoxedStrategy<Cmd> {
    prop_oneof![
        4 => (name_strategy(), 0u64..5).prop_map(|(name, leader)| Cmd::Create { name, leader }),
        8 => (name_strategy(), 0u64..5, prop_oneof![4 => 0u64..20, 1 => 0u64..(1u64 << 32)]).prop_map(|(name, leader, count)| Cmd::Rollover { name, leader, count }),
        2 => (0u64..5, "[a-z0-9.:]{0,20}").prop_map(|(node, addr)| Cmd::Upsert { node, addr }),
    ]
    .boxed()
}

pub fn cmd_strategy() -> BoxedStrategy<Cmd> {
    prop_oneof![
        12 => valid_cmd_strategy(),
        1 => proptest::collection::vec(any::<u8>(), 0..64).prop_map(Cmd::Raw),
        2 => (valid_cmd_strategy(), any::<u16>(), any::<u8>(), any::<bool>()).prop_map(|(b, pos, byte, truncate)| Cmd::Mutated { base: Box::new(b), pos, byte, truncate }),
    ]
    .boxed()
}

// ------------------------------------------------------------------------------------------ C18

fn alphabet() -> Vec<Cmd> {
    let mut v = Vec::new();
    for t in ["a", "b"] {
        for l in 1..=3u64 {
            v.push(Cmd::Create { name: t.into(), leader: l });
        }
    }
    for t in ["a", "b", "zz"] {
        for l in 1..=3u64 {
            for c in [0u64, 1, 3] {
                v.push(Cmd::Rollover { name: t.into(), leader: l, count: c });
            }
        }
    }
    for n in 1..=3u64 {
        v.push(Cmd::Upsert { node: n, addr: format!("10.0.0.{}:70", n) });
    }
    v
}

/// prefix-shared DFS: the machine state is carried along by snapshot/restore
fn dfs(ctx: &Ctx, alpha: &[(Cmd, Vec<u8>)], m: &Metadata, sealed: &Sealed, path: &mut Vec<usize>, depth: usize, nodes: &mut u64, nontrivial: &mut u64, rolled: u8) -> Result<(), (String, Vec<usize>)> {
    if depth == 0 || ctx.stop.load(std::sync::atomic::Ordering::Relaxed) {
        return Ok(());
    }
    let snap = m.snapshot();
    let before = canon(m).map_err(|e| (e, path.clone()))?;
    for (i, (cmd, bytes)) in alpha.iter().enumerate() {
        path.push(i);
        let res = std::panic::catch_unwind(std::panic::AssertUnwindSafe(|| m.apply(bytes)));
        let res = match res {
            Ok(r) => r,
            Err(_) => return Err((format!("command {:?} panicked", short(cmd)), path.clone())),
        };
        *nodes += 1;
        let after = canon(m).map_err(|e| (e, path.clone()))?;
        if res.is_err() && after != before {
            return Err((format!("command {:?} returned Err but changed the state", short(cmd)), path.clone()));
        }
        let mut sealed2 = sealed.clone();
        check_invariants(&after, &mut sealed2).map_err(|e| (e, path.clone()))?;
        // bit 0/1: topic a/b has been rolled over
        let mut rolled2 = rolled;
        let tbit = match topic_of(cmd) {
            Some("a") => 1u8,
            Some("b") => 2u8,
            _ => 0,
        };
        if tbit != 0 && rolled & tbit != 0 {
            *nontrivial += 1;
        }
        if matches!(cmd, Cmd::Rollover { .. }) && res.is_ok() {
            rolled2 |= tbit;
        }
        dfs(ctx, alpha, m, &sealed2, path, depth - 1, nodes, nontrivial, rolled2)?;
        path.pop();
        m.restore(&snap).map_err(|e| (format!("restore of the machine's own snapshot failed: {}", e), path.clone()))?;
    }
    Ok(())
}

pub fn c18(ctx: &Ctx) {
    let q = ctx.tier == Tier::Quick;
    // (i) exhaustive
    let depth = if q { 5 } else { 6 };
    let alpha: Vec<(Cmd, Vec<u8>)> = alphabet().into_iter().map(|c| (c.clone(), encode(&c))).collect();
    let t0 = std::time::Instant::now();
    let total_nodes = std::sync::atomic::AtomicU64::new(0);
    let total_nt = std::sync::atomic::AtomicU64::new(0);
    let next = std::sync::atomic::AtomicUsize::new(0);
    let completed = std::sync::atomic::AtomicUsize::new(0);
    std::thread::scope(|sc| {
        for _ in 0..16 {
            sc.spawn(|| loop {
                let i = next.fetch_add(1, std::sync::atomic::Ordering::SeqCst);
                if i >= alpha.len() || ctx.stop.load(std::sync::atomic::Ordering::SeqCst) {
                    return;
                }
                let m = Metadata::new();
                let mut sealed: Sealed = HashMap::new();
                let mut nodes = 0u64;
                let mut nt = 0u64;
                let mut path = vec![i];
                let first = std::panic::catch_unwind(std::panic::AssertUnwindSafe(|| m.apply(&alpha[i].1)));
                let r = match first {
                    Err(_) => Err((format!("command {:?} panicked", short(&alpha[i].0)), path.clone())),
                    Ok(res) => {
                        nodes += 1;
                        let after = canon(&m);
                        match after {
                            Err(e) => Err((e, path.clone())),
                            Ok(a) => {
                                if res.is_err() && a != (Canon { topics: BTreeMap::new(), nodes: BTreeMap::new() }) {
                                    Err(("Err changed the state".to_string(), path.clone()))
                                } else {
                                    match check_invariants(&a, &mut sealed) {
                                        Err(e) => Err((e, path.clone())),
                                        Ok(()) => dfs(ctx, &alpha, &m, &sealed, &mut path, depth - 1, &mut nodes, &mut nt, 0),
                                    }
                                }
                            }
                        }
                    }
                };
                total_nodes.fetch_add(nodes, std::sync::atomic::Ordering::Relaxed);
                total_nt.fetch_add(nt, std::sync::atomic::Ordering::Relaxed);
                match r {
                    Ok(()) => {
                        completed.fetch_add(1, std::sync::atomic::Ordering::Relaxed);
                    }
                    Err((msg, path)) => {
                        let cmds: Vec<Cmd> = path.iter().map(|k| alpha[*k].0.clone()).collect();
                        if !ctx.stop.swap(true, std::sync::atomic::Ordering::SeqCst) {
                            ctx.violation(&format!("[exhaustive] {}", msg), &json!({"kind": "meta-seq", "property": "C18", "cmds": cmds, "message": msg}));
                        }
                        return;
                    }
                }
            });
        }
    });
    let nodes = total_nodes.load(std::sync::atomic::Ordering::Relaxed);
    let nt = total_nt.load(std::sync::atomic::Ordering::Relaxed);
    ctx.evaluations.fetch_add(nodes, std::sync::atomic::Ordering::Relaxed);
    {
        // every node of the tree is a distinct sequence; the non-trivial ones were counted
        let mut g = ctx.nontrivial_hashes.lock().unwrap();
        for i in 0..nt.min(2_000_000) {
            g.insert(splitmix(0xC18 ^ i));
        }
    }
    let all_done = completed.load(std::sync::atomic::Ordering::Relaxed) == alpha.len();
    ctx.searches.lock().unwrap().push(json!({
        "name": "exhaustive-prefix-tree",
        "alphabet": alpha.len(),
        "depth": depth,
        "sequences_checked": nodes,
        "nontrivial_sequences": nt,
        "complete": all_done,
        "wall_s": (t0.elapsed().as_secs_f64() * 10.0).round() / 10.0,
    }));
    ctx.samples.lock().unwrap().push(json!({"exhaustive_alphabet_sample": alpha.iter().take(8).map(|(c, _)| format!("{:?}", c)).collect::<Vec<_>>(), "depth": depth}));
    // (ii)+(iii) generated
    let s = Search {
        name: "generated-sequences".to_string(),
        strategy: Box::new(|| proptest::collection::vec(cmd_strategy(), 1..400).boxed()),
        run: Box::new(|cmds: &Vec<Cmd>| {
            let o = run_seq(cmds);
            let mut rep = CaseReport::default();
            rep.features = o.features.clone();
            rep.nontrivial = seq_nontrivial(&o.features);
            rep.sample = Some(json!({"commands": cmds.len(), "first": cmds.iter().take(6).map(short).collect::<Vec<_>>(), "responses": o.responses.iter().take(6).collect::<Vec<_>>()}));
            if let Some(v) = o.violation {
                rep.violation = Some((v.clone(), json!({"kind": "meta-seq", "property": "C18", "cmds": cmds, "message": v})));
            }
            rep
        }),
        cases: if q { 3000 } else { 200_000 },
        workers: 16,
        max_shrink_iters: 2000,
        shrink_secs: 120,
    };
    run_search(ctx, &s);
    if all_done && !q {
        ctx.set_extra("exhaustive_part_complete", json!(true));
    }
}

pub fn replay_seq(body: &Value) -> Result<Option<String>, String> {
    let cmds: Vec<Cmd> = serde_json::from_value(body.get("cmds").cloned().ok_or("no cmds")?).map_err(|e| e.to_string())?;
    if let Some(s2) = body.get("s2") {
        let s2: Vec<Cmd> = serde_json::from_value(s2.clone()).map_err(|e| e.to_string())?;
        let mutation: Option<(u32, u8, bool)> = body.get("mutation").cloned().and_then(|m| serde_json::from_value(m).ok());
        return Ok(run_c20(&cmds, &s2, mutation).0);
    }
    Ok(run_seq(cmds.as_slice()).violation)
}

// ------------------------------------------------------------------------------------------ C20 (a)

fn apply_quiet(m: &Metadata, c: &Cmd) -> Result<String, String> {
    let bytes = encode(c);
    match std::panic::catch_unwind(std::panic::AssertUnwindSafe(|| m.apply(&bytes))) {
        Ok(Ok(b)) => Ok(format!("Ok({})", String::from_utf8_lossy(&b))),
        Ok(Err(e)) => Ok(format!("Err({})", e)),
        Err(_) => Err(format!("command {:?} panicked", short(c))),
    }
}

pub fn run_c20(s1: &[Cmd], s2: &[Cmd], mutation: Option<(u32, u8, bool)>) -> (Option<String>, BTreeSet<String>) {
    let mut f = BTreeSet::new();
    let a = Metadata::new();
    let mut names = BTreeSet::new();
    names_of(s1, &mut names);
    names_of(s2, &mut names);
    let mut rolled: BTreeSet<String> = BTreeSet::new();
    // an earlier snapshot is taken a few commands before the one that is transferred (a sender
    // serves snapshots more than once); how many commands lie in between comes from `mutation`
    // or the length of s1, so that the case stays a pure function of its inputs
    let gap = match mutation {
        Some((p, _, _)) => (p % 7) as usize,
        None => s1.len() % 5,
    };
    let early_at = s1.len().saturating_sub(gap);
    for (i, c) in s1.iter().enumerate() {
        if i == early_at {
            let _ = a.snapshot();
            f.insert("earlier_snapshot_taken".into());
        }
        match apply_quiet(&a, c) {
            Ok(r) => {
                if matches!(c, Cmd::Rollover { .. }) && r.starts_with("Ok") {
                    rolled.insert(topic_of(c).unwrap().to_string());
                }
            }
            Err(e) => return (Some(e), f),
        }
    }
    let snap = a.snapshot();
    let ca = view(&a, &names);
    let b = Metadata::new();
    // restoring a damaged snapshot first: fails without effect, or succeeds
    if let Some((pos, byte, truncate)) = mutation {
        if !snap.is_empty() {
            let mut bad = snap.clone();
            let p = pos as usize % bad.len();
            if truncate {
                bad.truncate(p);
            } else {
                bad[p] ^= byte.max(1);
            }
            let before = canon(&b).unwrap();
            let r = std::panic::catch_unwind(std::panic::AssertUnwindSafe(|| b.restore(&bad)));
            match r {
                Err(_) => return (Some("restoring a damaged snapshot panicked".into()), f),
                Ok(Err(_)) => {
                    f.insert("damaged_snapshot_rejected".into());
                    match canon(&b) {
                        Ok(after) if after == before => {}
                        _ => return (Some("a rejected snapshot changed the receiving state machine".into()), f),
                    }
                }
                Ok(Ok(())) => {
                    f.insert("damaged_snapshot_accepted".into());
                }
            }
        }
    }
    if let Err(e) = b.restore(&snap) {
        return (Some(format!("restoring the sender's snapshot failed: {}", e)), f);
    }
    let cb = view(&b, &names);
    if ca != cb {
        return (Some(format!("after restore the receiver differs from the sender: sender {:?} receiver {:?}", ca, cb).chars().take(600).collect()), f);
    }
    if !ca.topics.is_empty() {
        f.insert("snapshot_with_topics".into());
    }
    for (i, c) in s2.iter().enumerate() {
        let ra = match apply_quiet(&a, c) {
            Ok(r) => r,
            Err(e) => return (Some(e), f),
        };
        let rb = match apply_quiet(&b, c) {
            Ok(r) => r,
            Err(e) => return (Some(e), f),
        };
        if ra != rb {
            return (Some(format!("command #{} of the common suffix {:?} answered {} on the sender and {} on the restored replica", i, short(c), ra, rb)), f);
        }
        let (xa, xb) = (view(&a, &names), view(&b, &names));
        if xa != xb {
            return (Some(format!("after command #{} of the common suffix {:?} the replicas differ", i, short(c))), f);
        }
        if let Some(t) = topic_of(c) {
            if rolled.contains(t) {
                f.insert("suffix_touches_rolled_topic".into());
            }
        }
    }
    // finally the snapshots themselves (once, at the end): equal state, equal canonical snapshot
    match (canon(&a), canon(&b)) {
        (Ok(x), Ok(y)) if x == y => {}
        (Ok(_), Ok(_)) => return (Some("after the common suffix the two replicas produce different snapshots".into()), f),
        (Err(e), _) | (_, Err(e)) => return (Some(e), f),
    }
    (None, f)
}

pub fn c20(ctx: &Ctx) {
    let q = ctx.tier == Tier::Quick;
    type C = (Vec<Cmd>, Vec<Cmd>, Option<(u32, u8, bool)>);
    let s = Search {
        name: "snapshot-restore-then-common-suffix".to_string(),
        strategy: Box::new(|| {
            (
                proptest::collection::vec(cmd_strategy(), 0..120),
                proptest::collection::vec(cmd_strategy(), 0..60),
                proptest::option::weighted(0.4, (any::<u32>(), any::<u8>(), any::<bool>())),
            )
                .boxed()
        }),
        run: Box::new(|case: &C| {
            let (v, f) = run_c20(&case.0, &case.1, case.2);
            let mut rep = CaseReport::default();
            rep.nontrivial = f.contains("suffix_touches_rolled_topic") && f.contains("snapshot_with_topics");
            rep.features = f;
            rep.sample = Some(json!({"s1": case.0.len(), "s2": case.1.len(), "mutation": case.2, "s1_head": case.0.iter().take(5).map(short).collect::<Vec<_>>()}));
            if let Some(m) = v {
                rep.violation = Some((m.clone(), json!({"kind": "meta-seq", "property": "C20", "cmds": case.0, "s2": case.1, "mutation": case.2, "message": m})));
            }
            rep
        }),
        cases: if q { 30_000 } else { 600_000 },
        workers: 16,
        max_shrink_iters: 2000,
        shrink_secs: 120,
    };
    run_search(ctx, &s);
}

// ------------------------------------------------------------------------------------------ C25

fn check_key(topic: &str, seg: u64) -> Result<String, String> {
    let k = wal_key(topic, seg);
    match parse_wal_key(&k) {
        Some((t, s)) if t == topic && s == seg => Ok(k),
        other => Err(format!("wal_key({:?}, {}) = {:?} decodes to {:?}", topic, seg, k, other)),
    }
}

fn topic_strategy() -> BoxedStrategy<String> {
    let frag = prop_oneof![
        3 => Just("_s_".to_string()),
        2 => Just("t_".to_string()),
        2 => Just("_s_7".to_string()),
        1 => Just("_".to_string()),
        1 => Just("s".to_string()),
        2 => "[0-9]{1,4}",
        3 => "[a-z]{1,6}",
        1 => any::<char>().prop_map(|c| c.to_string()),
    ];
    proptest::collection::vec(frag, 0..12).prop_map(|v| v.concat().chars().take(200).collect()).boxed()
}

fn seg_strategy() -> BoxedStrategy<u64> {
    prop_oneof![3 => 0u64..20, 1 => any::<u64>(), 1 => Just(u64::MAX)].boxed()
}

fn key_nontrivial(t: &str) -> bool {
    t.contains("_s_") || t.starts_with("t_") || t.chars().last().map(|c| c.is_ascii_digit()).unwrap_or(false)
}

pub fn replay_walkey(body: &Value) -> Result<Option<String>, String> {
    let pairs: Vec<(String, u64)> = serde_json::from_value(body.get("pairs").cloned().ok_or("no pairs")?).map_err(|e| e.to_string())?;
    let mut keys: HashMap<String, (String, u64)> = HashMap::new();
    for (t, s) in pairs {
        match check_key(&t, s) {
            Err(e) => return Ok(Some(e)),
            Ok(k) => {
                if let Some(prev) = keys.get(&k) {
                    if *prev != (t.clone(), s) {
                        return Ok(Some(format!("{:?} and {:?} share the storage key {:?}", prev, (t, s), k)));
                    }
                }
                keys.insert(k, (t, s));
            }
        }
    }
    Ok(None)
}

pub fn c25(ctx: &Ctx) {
    let q = ctx.tier == Tier::Quick;
    // exhaustive part
    let t0 = std::time::Instant::now();
    let alpha = ['t', 's', '_', '1', '0'];
    let mut topics: Vec<String> = vec![String::new()];
    let mut frontier = vec![String::new()];
    for _ in 0..5 {
        let mut next = Vec::new();
        for p in &frontier {
            for c in alpha {
                let mut s = p.clone();
                s.push(c);
                next.push(s);
            }
        }
        topics.extend(next.iter().cloned());
        frontier = next;
    }
    let segs = [0u64, 1, 9, 10, 11, u64::MAX];
    let mut keys: HashMap<String, (usize, u64)> = HashMap::new();
    let mut n = 0u64;
    let mut nt = 0u64;
    'outer: for (ti, t) in topics.iter().enumerate() {
        for s in segs {
            n += 1;
            if key_nontrivial(t) {
                nt += 1;
            }
            match check_key(t, s) {
                Err(e) => {
                    ctx.violation(&format!("[exhaustive] {}", e), &json!({"kind": "walkey", "property": "C25", "pairs": [[t, s]], "message": e}));
                    break 'outer;
                }
                Ok(k) => {
                    if let Some((pt, ps)) = keys.insert(k.clone(), (ti, s)) {
                        let msg = format!("({:?}, {}) and ({:?}, {}) share the storage key {:?}", topics[pt], ps, t, s, k);
                        ctx.violation(&format!("[exhaustive] {}", msg), &json!({"kind": "walkey", "property": "C25", "pairs": [[topics[pt], ps], [t, s]], "message": msg}));
                        break 'outer;
                    }
                }
            }
        }
    }
    ctx.evaluations.fetch_add(n, std::sync::atomic::Ordering::Relaxed);
    {
        let mut g = ctx.nontrivial_hashes.lock().unwrap();
        for i in 0..nt {
            g.insert(splitmix(0xC25 ^ i));
        }
    }
    ctx.searches.lock().unwrap().push(json!({"name": "exhaustive-small-alphabet", "topics": topics.len(), "segments": segs.len(), "pairs": n, "distinct_keys": keys.len(), "complete": !ctx.violated(), "wall_s": (t0.elapsed().as_secs_f64() * 10.0).round() / 10.0}));
    ctx.samples.lock().unwrap().push(json!({"exhaustive_pairs_sample": [["t_s_1", 10, wal_key("t_s_1", 10)], ["_s_", 0, wal_key("_s_", 0)], ["", u64::MAX, wal_key("", u64::MAX)]]}));
    // generated part: round trip and pairwise injectivity
    type P = ((String, u64), (String, u64));
    let s = Search {
        name: "generated-pairs".to_string(),
        strategy: Box::new(|| ((topic_strategy(), seg_strategy()), (topic_strategy(), seg_strategy())).boxed()),
        run: Box::new(|p: &P| {
            let mut rep = CaseReport::default();
            rep.nontrivial = key_nontrivial(&p.0 .0) || key_nontrivial(&p.1 .0);
            if p.0 .0.contains("_s_") {
                rep.features.insert("topic_contains_separator".into());
            }
            rep.sample = Some(json!({"a": p.0, "b": p.1, "key_a": wal_key(&p.0 .0, p.0 .1)}));
            let r = (|| -> Result<(), String> {
                let ka = check_key(&p.0 .0, p.0 .1)?;
                let kb = check_key(&p.1 .0, p.1 .1)?;
                if p.0 != p.1 && ka == kb {
                    return Err(format!("{:?} and {:?} share the storage key {:?}", p.0, p.1, ka));
                }
                // a near miss: move the boundary between topic and segment
                let shifted = (format!("{}_s_{}", p.0 .0, p.0 .1), p.1 .1);
                let kc = check_key(&shifted.0, shifted.1)?;
                if kc == ka && shifted != p.0 {
                    return Err(format!("{:?} and {:?} share the storage key {:?}", p.0, shifted, ka));
                }
                Ok(())
            })();
            if let Err(m) = r {
                rep.violation = Some((m.clone(), json!({"kind": "walkey", "property": "C25", "pairs": [[p.0 .0, p.0 .1], [p.1 .0, p.1 .1]], "message": m})));
            }
            rep
        }),
        cases: if q { 20_000 } else { 2_000_000 },
        workers: 16,
        max_shrink_iters: 2000,
        shrink_secs: 60,
    };
    run_search(ctx, &s);
    if !q {
        ctx.set_extra("exhaustive_part_complete", json!(true));
    }
}

//! E7 child side: one simulated cluster run. Reads a `SimCase` (JSON) from stdin, runs the
//! repository's controller / bucket / client / monitor code on the deterministic executor of the
//! tokio stand-in, and prints a `SimResult` (JSON). Runs in its own process because the real
//! `walrus-rust` engine under every node keeps process-global state.
use crate::bucket::Storage;
use crate::controller::NodeController;
use crate::metadata::{Metadata, MetadataCmd};
use crate::rpc;
use octopii::rpc::{RequestPayload, ResponsePayload};
use serde::{Deserialize, Serialize};
use std::cell::RefCell;
use std::collections::{BTreeMap, HashMap, HashSet};
use std::rc::Rc;
use std::sync::atomic::AtomicBool;
use std::sync::Arc;
use tokio::io::{AsyncReadExt, AsyncWriteExt};
use tokio::rt;

#[derive(Clone, Debug, Serialize, Deserialize, PartialEq, Eq, Hash)]
pub enum ClientKind {
    /// send frame k, wait for response k, then frame k+1
    Lockstep { frames: Vec<Vec<u8>> },
    /// write all chunks without waiting for responses, then collect whatever comes back
    Pipelined { chunks: Vec<Vec<u8>> },
}

#[derive(Clone, Debug, Serialize, Deserialize, PartialEq, Eq, Hash)]
pub struct SimClient {
    /// node whose client listener this connection talks to (1-based)
    pub node: u8,
    pub kind: ClientKind,
}

#[derive(Clone, Debug, Serialize, Deserialize, PartialEq, Eq, Hash)]
pub struct SimCase {
    pub nodes: u8,
    pub threshold: u8,
    pub topics: Vec<String>,
    pub monitor: bool,
    pub clients: Vec<SimClient>,
    pub schedule: Vec<u8>,
    /// node the final drain reads through
    pub drain_node: u8,
    pub max_steps: u64,
    /// watch segment sizes after every step (C23) and drain at the end (C22)
    #[serde(default = "yes")]
    pub data_plane: bool,
    /// node that plays the metadata (Raft) leader; 0 = node 1
    #[serde(default)]
    pub raft_leader: u8,
}
fn yes() -> bool {
    true
}

#[derive(Clone, Debug, Serialize, Deserialize)]
pub struct OpObs {
    pub sent_step: u64,
    pub resp_step: u64,
    pub resp: Option<String>,
}

#[derive(Clone, Debug, Default, Serialize, Deserialize)]
pub struct SimResult {
    pub clients: Vec<Vec<OpObs>>,
    /// raw bytes received by pipelined clients (hex)
    pub raw: Vec<String>,
    pub drain: BTreeMap<String, Vec<String>>,
    /// decoded metadata log
    pub log: Vec<String>,
    /// (node, log index, step)
    pub apply_events: Vec<(u64, usize, u64)>,
    pub fencing_violations: Vec<String>,
    pub steps: u64,
    pub clock_ms: u64,
    pub clients_finished: bool,
    pub setup_error: Option<String>,
    /// a rollover was applied on some node while a PUT on that topic was in flight
    pub features: Vec<String>,
}

fn frame(s: &[u8]) -> Vec<u8> {
    let mut v = (s.len() as u32).to_le_bytes().to_vec();
    v.extend_from_slice(s);
    v
}

async fn read_frame(c: &mut tokio::net::TcpStream) -> Option<String> {
    let mut len = [0u8; 4];
    if c.read_exact(&mut len).await.is_err() {
        return None;
    }
    let n = u32::from_le_bytes(len) as usize;
    let mut buf = vec![0u8; n];
    if c.read_exact(&mut buf).await.is_err() {
        return None;
    }
    Some(String::from_utf8_lossy(&buf).into_owned())
}

fn steps() -> u64 {
    rt::RT.with(|r| r.borrow().steps)
}

struct Node {
    id: u64,
    ctrl: Arc<NodeController>,
}

pub fn run_case(case: &SimCase, base: &std::path::Path) -> SimResult {
    let mut res = SimResult::default();
    std::env::set_var("WALRUS_QUIET", "1");
    std::env::set_var("WALRUS_MAX_SEGMENT_ENTRIES", format!("{}", case.threshold.max(1)));
    std::env::set_var("WALRUS_MONITOR_CHECK_MS", "50");
    rt::reset();
    octopii::sim::reset();
    // chooser: schedule bytes, then a deterministic xorshift stream derived from them
    let sched = case.schedule.clone();
    let mut pos = 0usize;
    let mut x: u64 = 0x9E37_79B9_7F4A_7C15 ^ (sched.iter().fold(0u64, |a, b| a.wrapping_mul(131).wrapping_add(*b as u64)) | 1);
    rt::set_chooser(Box::new(move |options, _| {
        let b = if pos < sched.len() {
            let b = sched[pos] as u64;
            pos += 1;
            b
        } else {
            x ^= x << 13;
            x ^= x >> 7;
            x ^= x << 17;
            x >> 11
        };
        // "let time pass" (usize::MAX) is the last option when a timer is pending: low weight
        let has_time = options.last() == Some(&usize::MAX);
        let tasks = if has_time { options.len() - 1 } else { options.len() };
        if has_time && (tasks == 0 || b % 8 == 0) {
            options.len() - 1
        } else {
            ((b / 8) % tasks as u64) as usize
        }
    }));

    let n = case.nodes.clamp(1, 3) as u64;
    let mut nodes: Vec<Node> = Vec::new();
    for id in 1..=n {
        let addr: std::net::SocketAddr = format!("127.0.0.1:{}", 6000 + id).parse().unwrap();
        let md = Arc::new(Metadata::new());
        let raft = Arc::new(octopii::OctopiiNode::sim_new(id, addr, md.clone(), true));
        let dir = base.join(format!("node_{id}"));
        let slot: Rc<RefCell<Option<anyhow::Result<Storage>>>> = Rc::new(RefCell::new(None));
        let s2 = slot.clone();
        rt::spawn_named("mkstorage", async move {
            *s2.borrow_mut() = Some(Storage::new(dir).await);
        });
        let mut guard = 0;
        while slot.borrow().is_none() && guard < 10_000 {
            rt::step();
            guard += 1;
        }
        let storage = match slot.borrow_mut().take() {
            Some(Ok(s)) => Arc::new(s),
            Some(Err(e)) => {
                res.setup_error = Some(format!("storage: {e}"));
                return res;
            }
            None => {
                res.setup_error = Some("storage creation did not finish".into());
                return res;
            }
        };
        let c = Arc::new(NodeController {
            node_id: id,
            bucket: storage,
            metadata: md,
            raft,
            offsets: Arc::new(tokio::sync::RwLock::new(Default::default())),
            read_cursors: Arc::new(tokio::sync::Mutex::new(Default::default())),
            test_fail_forward_read: AtomicBool::new(false),
            test_fail_monitor: AtomicBool::new(false),
            test_fail_dir_size: AtomicBool::new(false),
        });
        let c2 = c.clone();
        rt::spawn_named("sethandler", async move {
            let c3 = c2.clone();
            c2.raft
                .set_custom_rpc_handler(move |req| {
                    let c4 = c3.clone();
                    Box::pin(async move {
                        if let RequestPayload::Custom { operation, data } = req.payload {
                            if operation == "Forward" {
                                match bincode::deserialize::<rpc::InternalOp>(&data) {
                                    Ok(op) => {
                                        let resp = c4.handle_rpc(op).await;
                                        let success = !matches!(resp, rpc::InternalResp::Error(_));
                                        let bytes = bincode::serialize(&resp).unwrap_or_default();
                                        return ResponsePayload::CustomResponse { success, data: bytes.into() };
                                    }
                                    Err(e) => return ResponsePayload::Error { message: format!("decode error: {e}") },
                                }
                            }
                        }
                        ResponsePayload::Error { message: "unsupported request".into() }
                    })
                })
                .await;
        });
        let idc = id;
        rt::spawn_named(&format!("apply{id}"), async move {
            loop {
                tokio::yield_now().await;
                if !octopii::sim::apply_one(idc) {
                    tokio::time::sleep(std::time::Duration::from_millis(5)).await;
                }
            }
        });
        let c5 = c.clone();
        rt::spawn_named(&format!("lease{id}"), async move { c5.run_lease_update_loop().await });
        let c6 = c.clone();
        rt::spawn_named(&format!("listen{id}"), async move {
            let _ = crate::client::start_client_listener(c6, format!("node{idc}:8080")).await;
        });
        if case.monitor {
            let c7 = c.clone();
            rt::spawn_named(&format!("monitor{id}"), async move {
                let cfg = <crate::config::NodeConfig as clap::Parser>::parse_from(vec!["sim".to_string(), "--node-id".to_string(), idc.to_string()]);
                crate::monitor::Monitor::new(c7, cfg).run().await
            });
        }
        nodes.push(Node { id, ctrl: c });
    }
    let rl = if case.raft_leader >= 1 && (case.raft_leader as u64) <= n { case.raft_leader as u64 } else { 1 };
    octopii::sim::with(|c| c.leader = Some(rl));
    // node addresses through the metadata leader
    {
        let c = nodes[(rl - 1) as usize].ctrl.clone();
        let ids: Vec<u64> = nodes.iter().map(|n| n.id).collect();
        let done = Rc::new(RefCell::new(false));
        let d2 = done.clone();
        rt::spawn_named("upsert", async move {
            for id in ids {
                let _ = c.upsert_node(id, format!("127.0.0.1:{}", 6000 + id)).await;
            }
            *d2.borrow_mut() = true;
        });
        let mut g = 0;
        while !*done.borrow() && g < 20_000 {
            rt::step();
            g += 1;
        }
    }
    // all client listeners are bound
    {
        let mut g = 0;
        while g < 20_000 && !(1..=n).all(|id| rt::RT.with(|r| r.borrow().listeners.contains_key(&format!("node{id}:8080")))) {
            rt::step();
            g += 1;
        }
    }
    // topics are registered sequentially through the metadata leader (its metadata already holds
    // every node address, so the initial segment leader is a function of the topic name and the
    // cluster size) before the generated phase
    {
        let conn = tokio::net::connect(&format!("node{rl}:8080"));
        let Some(mut conn) = conn else {
            res.setup_error = Some("no listener on the metadata leader".into());
            return res;
        };
        let topics = case.topics.clone();
        let done = Rc::new(RefCell::new(false));
        let d2 = done.clone();
        rt::spawn_named("register", async move {
            for t in topics {
                let _ = conn.write_all(&frame(format!("REGISTER {t}").as_bytes())).await;
                let _ = read_frame(&mut conn).await;
            }
            *d2.borrow_mut() = true;
        });
        let mut g = 0;
        while !*done.borrow() && g < 50_000 {
            rt::step();
            g += 1;
        }
        // let every node catch up with the metadata log
        for _ in 0..3000 {
            rt::step();
            let caught = octopii::sim::with(|c| c.nodes.values().all(|n| n.applied == c.log.len()));
            if caught {
                break;
            }
        }
    }

    // ---- generated phase
    let obs: Vec<Rc<RefCell<Vec<OpObs>>>> = case.clients.iter().map(|_| Rc::new(RefCell::new(Vec::new()))).collect();
    let raws: Vec<Rc<RefCell<Vec<u8>>>> = case.clients.iter().map(|_| Rc::new(RefCell::new(Vec::new()))).collect();
    let finished: Vec<Rc<RefCell<bool>>> = case.clients.iter().map(|_| Rc::new(RefCell::new(false))).collect();
    let inflight_puts: Rc<RefCell<HashMap<usize, String>>> = Rc::new(RefCell::new(HashMap::new()));
    for (ci, cl) in case.clients.iter().enumerate() {
        let node = (cl.node as u64).clamp(1, n);
        let Some(mut conn) = tokio::net::connect(&format!("node{node}:8080")) else {
            res.setup_error = Some(format!("no listener on node {node}"));
            return res;
        };
        let o = obs[ci].clone();
        let raw = raws[ci].clone();
        let fin = finished[ci].clone();
        let kind = cl.kind.clone();
        let infl = inflight_puts.clone();
        rt::spawn_named(&format!("client{ci}"), async move {
            match kind {
                ClientKind::Lockstep { frames } => {
                    for f in frames {
                        let sent = steps();
                        if f.starts_with(b"PUT ") {
                            let t = String::from_utf8_lossy(&f[4..]).split(' ').next().unwrap_or("").to_string();
                            infl.borrow_mut().insert(ci, t);
                        }
                        let _ = conn.write_all(&frame(&f)).await;
                        let r = read_frame(&mut conn).await;
                        infl.borrow_mut().remove(&ci);
                        o.borrow_mut().push(OpObs { sent_step: sent, resp_step: steps(), resp: r });
                    }
                }
                ClientKind::Pipelined { chunks } => {
                    for c in chunks {
                        let _ = conn.write_all(&c).await;
                        tokio::yield_now().await;
                    }
                    // collect responses until the connection has been quiet for a while
                    let mut quiet = 0;
                    while quiet < 40 {
                        let got = conn.drain_bytes();
                        if got.is_empty() {
                            quiet += 1;
                            tokio::time::sleep(std::time::Duration::from_millis(20)).await;
                        } else {
                            quiet = 0;
                            raw.borrow_mut().extend(got);
                        }
                    }
                }
            }
            *fin.borrow_mut() = true;
        });
    }

    // fencing observation state (C23)
    let mut last_size: HashMap<(u64, String), u64> = HashMap::new();
    let mut applied_upto: HashMap<u64, usize> = HashMap::new();
    // (node, topic) -> number of rollovers of that topic this node has applied
    let mut sealed_applied: HashMap<(u64, String), u64> = HashMap::new();
    let mut known_segments: HashMap<String, u64> = case.topics.iter().map(|t| (t.clone(), 2)).collect();
    let mut feats: HashSet<String> = HashSet::new();
    let mut viols: Vec<String> = Vec::new();

    let mut observe = |nodes: &Vec<Node>, viols: &mut Vec<String>, feats: &mut HashSet<String>| {
        // newly applied commands per node
        let (log, applied): (Vec<Vec<u8>>, Vec<(u64, usize)>) = octopii::sim::with(|c| (c.log.clone(), c.nodes.iter().map(|(id, n)| (*id, n.applied)).collect()));
        for (id, upto) in applied {
            let from = *applied_upto.get(&id).unwrap_or(&0);
            for cmd in log.iter().take(upto).skip(from) {
                if let Ok(MetadataCmd::RolloverTopic { name, .. }) = bincode::deserialize::<MetadataCmd>(cmd) {
                    let e = sealed_applied.entry((id, name.clone())).or_insert(0);
                    *e += 1;
                    let ks = known_segments.entry(name.clone()).or_insert(2);
                    *ks = (*ks).max(*e + 2);
                    if inflight_puts.borrow().values().any(|t| *t == name) {
                        feats.insert("rollover_applied_while_put_in_flight".into());
                    }
                }
            }
            applied_upto.insert(id, upto);
        }
        for nd in nodes {
            for (topic, maxseg) in known_segments.iter() {
                for seg in 1..=*maxseg {
                    let key = crate::controller::wal_key(topic, seg);
                    let size = nd.ctrl.bucket.get_topic_size_blocking(&key);
                    let prev = last_size.insert((nd.id, key.clone()), size).unwrap_or(0);
                    if size > prev {
                        let sealed_here = sealed_applied.get(&(nd.id, topic.clone())).copied().unwrap_or(0);
                        // segment `seg` is sealed on this node once it applied `seg` rollovers
                        if seg <= sealed_here {
                            viols.push(format!(
                                "step {}: node {} wrote into {} ({} -> {} bytes) after it had applied the rollover that seals segment {} ({} rollovers of {:?} applied on that node)",
                                steps(), nd.id, key, prev, size, seg, sealed_here, topic
                            ));
                        }
                        // the node's applied metadata names another node as leader of that segment
                        if let Some(l) = nd.ctrl.metadata.segment_leader(topic, seg) {
                            let exists = nd.ctrl.metadata.get_topic_state(topic).map(|t| seg <= t.current_segment).unwrap_or(false);
                            if exists && l != nd.id && seg > sealed_here {
                                viols.push(format!(
                                    "step {}: node {} wrote into {} ({} -> {} bytes) although its applied metadata assigns that segment to node {}",
                                    steps(), nd.id, key, prev, size, l
                                ));
                            }
                        }
                    }
                }
            }
        }
    };

    let mut all_done = false;
    let mut s = 0u64;
    while s < case.max_steps {
        rt::step();
        s += 1;
        if case.data_plane {
            observe(&nodes, &mut viols, &mut feats);
        }
        if finished.iter().all(|f| *f.borrow()) {
            all_done = true;
            break;
        }
    }
    res.clients_finished = all_done;
    // ---- quiesce: every node applies the whole log, pending rollovers settle
    if case.data_plane {
        for _ in 0..2500 {
            rt::step();
            observe(&nodes, &mut viols, &mut feats);
        }
    }
    // ---- drain through one node, sequentially
    if all_done && case.data_plane {
        let dn = (case.drain_node as u64).clamp(1, n);
        if let Some(mut conn) = tokio::net::connect(&format!("node{dn}:8080")) {
            let topics = case.topics.clone();
            let out: Rc<RefCell<BTreeMap<String, Vec<String>>>> = Rc::new(RefCell::new(BTreeMap::new()));
            let o2 = out.clone();
            let done = Rc::new(RefCell::new(false));
            let d2 = done.clone();
            rt::spawn_named("drain", async move {
                for t in topics {
                    let mut empties = 0;
                    let mut guard = 0;
                    while empties < 3 && guard < 400 {
                        guard += 1;
                        let _ = conn.write_all(&frame(format!("GET {t}").as_bytes())).await;
                        let r = read_frame(&mut conn).await.unwrap_or_else(|| "<closed>".into());
                        if r == "EMPTY" {
                            empties += 1;
                            // give lagging metadata a chance before concluding
                            tokio::time::sleep(std::time::Duration::from_millis(300)).await;
                        } else {
                            empties = 0;
                        }
                        o2.borrow_mut().entry(t.clone()).or_default().push(r);
                    }
                }
                *d2.borrow_mut() = true;
            });
            let mut g = 0;
            while !*done.borrow() && g < 400_000 {
                rt::step();
                observe(&nodes, &mut viols, &mut feats);
                g += 1;
            }
            res.drain = out.borrow().clone();
        }
    }
    res.clients = obs.iter().map(|o| o.borrow().clone()).collect();
    res.raw = raws.iter().map(|r| r.borrow().iter().map(|b| format!("{:02x}", b)).collect()).collect();
    octopii::sim::with(|c| {
        res.log = c.log.iter().map(|b| match bincode::deserialize::<MetadataCmd>(b) {
            Ok(cmd) => format!("{:?}", cmd),
            Err(_) => "<undecodable>".into(),
        }).collect();
        res.apply_events = c.apply_events.clone();
    });
    // duplicate rollover proposals for one segment
    {
        let mut per_topic: HashMap<String, u64> = HashMap::new();
        for l in &res.log {
            if l.starts_with("RolloverTopic") {
                *per_topic.entry(l.split('"').nth(1).unwrap_or("").to_string()).or_insert(0) += 1;
            }
        }
        if per_topic.values().any(|v| *v >= 2) {
            feats.insert("two_or_more_rollovers_of_a_topic".into());
        }
        if !per_topic.is_empty() {
            feats.insert("rollover_in_log".into());
        }
    }
    res.fencing_violations = viols;
    res.steps = steps();
    res.clock_ms = rt::now_ms();
    res.features = feats.into_iter().collect();
    res.features.sort();
    res
}

pub fn main_simexec() -> i32 {
    let mut input = String::new();
    if std::io::Read::read_to_string(&mut std::io::stdin(), &mut input).is_err() {
        return 2;
    }
    let case: SimCase = match serde_json::from_str(&input) {
        Ok(c) => c,
        Err(e) => {
            eprintln!("bad case: {e}");
            return 2;
        }
    };
    let base = std::path::PathBuf::from(std::env::var("WDIST_SIM_BASE").unwrap_or_else(|_| "/dev/shm/wdist-sim".into()));
    let _ = std::fs::create_dir_all(&base);
    std::panic::set_hook(Box::new(|info| {
        println!("@@PANIC {}", format!("{}", info).replace('\n', " | "));
        unsafe { libc::_exit(101) }
    }));
    let r = run_case(&case, &base);
    println!("@@RESULT {}", serde_json::to_string(&r).unwrap());
    // background threads of the engines never exit
    unsafe { libc::_exit(0) }
}

//! Checks for the distributed layer (C18, C20, C22-C25). The sources of distributed-walrus are
//! `#[path]`-included unmodified (dw.rs) and compiled against the stand-in crates under
//! /verif/shims; `crate::bucket` etc. are re-exported at the crate root because those sources
//! refer to each other through `crate::`.
#[path = "../../harness/src/engine.rs"]
#[allow(dead_code)]
mod engine;
mod dw;
pub use dw::{bucket, client, config, controller, metadata, monitor, rpc};
mod meta;
mod sim;
mod simdrv;

use engine::*;

fn usage() -> ! {
    eprintln!("usage: wdist run <Cxx> [--tier quick|thorough] | replay <file>");
    std::process::exit(2)
}

fn main() {
    let args: Vec<String> = std::env::args().collect();
    if args.len() < 2 {
        usage();
    }
    match args[1].as_str() {
        "simexec" => std::process::exit(sim::main_simexec()),
        "run" => {
            if args.len() < 3 {
                usage();
            }
            let mut tier = match std::env::var("VERIF_TIER").ok().as_deref() {
                Some("thorough") => Tier::Thorough,
                _ => Tier::Quick,
            };
            let mut i = 3;
            while i < args.len() {
                if args[i] == "--tier" && i + 1 < args.len() {
                    tier = if args[i + 1] == "thorough" { Tier::Thorough } else { Tier::Quick };
                    i += 1;
                }
                i += 1;
            }
            let seed: u64 = std::env::var("VERIF_SEED").ok().and_then(|s| s.parse().ok()).unwrap_or(0);
            std::process::exit(run_prop(&args[2], tier, seed));
        }
        "replay" => {
            if args.len() < 3 {
                usage();
            }
            let s = std::fs::read_to_string(&args[2]).expect("read replay file");
            let body: serde_json::Value = serde_json::from_str(&s).expect("parse replay file");
            let prop = body.get("property").and_then(|p| p.as_str()).unwrap_or("?").to_string();
            match replay_any(&body) {
                Ok(Some(msg)) => {
                    println!("VIOLATION property={} replay={}", prop, args[2]);
                    println!("  {}", msg);
                    std::process::exit(1)
                }
                Ok(None) => {
                    println!("OK property={} replay passes", prop);
                    std::process::exit(0)
                }
                Err(e) => {
                    println!("INCONCLUSIVE property={} {}", prop, e);
                    std::process::exit(2)
                }
            }
        }
        _ => usage(),
    }
}

pub fn replay_any(body: &serde_json::Value) -> Result<Option<String>, String> {
    match body.get("kind").and_then(|k| k.as_str()) {
        Some("meta-seq") => meta::replay_seq(body),
        Some("walkey") => meta::replay_walkey(body),
        Some("sim-data") => simdrv::replay_data(body),
        Some("sim-proto") => simdrv::replay_proto(body),
        Some(k) => Err(format!("unknown replay kind {}", k)),
        None => Err("replay without kind".into()),
    }
}

/// committed regression replays of a property (must pass)
pub fn regressions(ctx: &Ctx) {
    for f in regress_files(&ctx.prop) {
        let Ok(s) = std::fs::read_to_string(&f) else { continue };
        let Ok(body) = serde_json::from_str::<serde_json::Value>(&s) else { continue };
        if body.get("kind").and_then(|k| k.as_str()) == Some("c20-adapter") {
            continue; // replayed by the second part of the C20 check (wstore)
        }
        let mut rep = CaseReport::default();
        rep.features.insert("regression_replay".into());
        match replay_any(&body) {
            Ok(Some(msg)) => {
                ctx.record(str_hash(&s), &rep);
                ctx.violations.lock().unwrap().push((format!("regression replay fails again: {}", msg), f.clone()));
                ctx.stop.store(true, std::sync::atomic::Ordering::SeqCst);
            }
            Ok(None) => ctx.record(str_hash(&s), &rep),
            Err(e) => {
                rep.inconclusive = Some(format!("replay {}: {}", f, e));
                ctx.record(str_hash(&s), &rep);
            }
        }
    }
    for fd in open_findings(&ctx.prop) {
        let Some(p) = &fd.probe else { continue };
        let path = format!("{}/{}", verif_root(), p);
        let Ok(s) = std::fs::read_to_string(&path) else { continue };
        let Ok(body) = serde_json::from_str::<serde_json::Value>(&s) else { continue };
        let mut rep = CaseReport::default();
        rep.features.insert("known_finding_probe".into());
        ctx.record(str_hash(&s), &rep);
        if let Ok(Some(_)) = replay_any(&body) {
            ctx.known_findings.lock().unwrap().push(format!("{} {} (probe {} reproduced)", fd.id, fd.what, p));
        }
    }
}

fn run_prop(prop: &str, tier: Tier, seed: u64) -> i32 {
    match prop {
        "C18" => {
            let ctx = Ctx::new(
                "C18",
                tier,
                seed,
                "exploration",
                "three generators against distributed-walrus/src/metadata.rs (included unmodified): (i) exhaustive prefix-shared enumeration of all command sequences up to length L (quick 5, thorough 6) over a 36-command alphabet {CreateTopic(2 topics x 3 leaders), RolloverTopic((2 topics + 1 unknown) x 3 leaders x counts {0,1,3}), UpsertNode(3 nodes)}, invariants checked at every node of the tree; (ii) proptest sequences of up to 400 commands with arbitrary topic names, leaders, counts up to 2^32, duplicates and stale rollovers; (iii) arbitrary byte strings and mutated valid encodings interleaved with valid commands. Oracle after every command: no panic; per topic segments are exactly 1..=current, segment_leaders has exactly those keys, segment_leaders[current] == leader_node, sealed segments are exactly 1..current, every sealed segment's (count, leader) equals what the oracle recorded when it was sealed, last_sealed_entry_offset == sum of sealed counts; a command that returned Err (unknown topic, undecodable bytes) leaves the whole state unchanged. Non-trivial = a rollover of an existing topic is followed by another command on that topic, or an undecodable command sits between two valid ones; distinct = distinct sequence.",
                &["decoding goes through the stand-in bincode codec under /verif/shims (wire format of bincode 1.3 default options); the real crate is not available offline", "sealed counts above 2^32 are outside the generated domain (the cumulative counter is a plain u64 addition)"],
            );
            regressions(&ctx);
            meta::c18(&ctx);
            ctx.finish(tier.pick(1000, 100_000))
        }
        "C20" => {
            let ctx = Ctx::new(
                "C20",
                tier,
                seed,
                "exploration",
                "clause (a) of the property (a snapshot restored into a fresh state machine reproduces the original state; the two then stay equal under the same commands): generated command sequences s1 ++ s2 (C18 generators incl. stale/unknown/undecodable commands); s1 is applied to machine A, A.snapshot() is restored into a fresh machine B, the canonicalised states (sorted maps) must be equal and so must the responses and states after every command of s2 applied to both; restoring truncated / bit-flipped snapshots must fail without changing B or succeed. Non-trivial = s1 contains a rollover of an existing topic and s2 contains a command on that topic; distinct = distinct (s1, s2).",
                &["clause (b) (snapshot transfer through the Raft state-machine adapter octopii/src/openraft/storage.rs) needs the vendored openraft, none of whose dependencies is available offline; it is not exercised (DESIGN.md C20)", "stand-in bincode codec as for C18"],
            );
            regressions(&ctx);
            meta::c20(&ctx);
            ctx.finish(tier.pick(200, 5000))
        }
        "C25" => {
            let ctx = Ctx::new(
                "C25",
                tier,
                seed,
                "exploration",
                "controller/types.rs (wal_key / parse_wal_key, included unmodified): exhaustive - all topics of length <= 5 over the alphabet {t, s, _, 1, 0} (3906 strings) x segments {0, 1, 9, 10, 11, u64::MAX}: every key must decode to exactly its (topic, segment) and no two pairs may share a key (hash map over all 23436 keys); generated - arbitrary Unicode topics up to 200 chars weighted towards the fragments \"_s_\", \"t_\", \"_s_7\", digits, with arbitrary u64 segments: round trip, and for generated pairs of different (topic, segment) the keys differ. Non-trivial = the topic contains \"_s_\", starts with \"t_\" or ends with a digit; distinct = distinct (topic, segment).",
                &[],
            );
            regressions(&ctx);
            meta::c25(&ctx);
            ctx.finish(tier.pick(1000, 20_000))
        }
        "C22" | "C23" => {
            let which: u8 = if prop == "C22" { 22 } else { 23 };
            let rule22 = "generated cluster runs on a deterministic single-threaded executor (stand-in tokio with a virtual clock; every await on a lock, timer, spawn_blocking, socket or yield is a scheduling point decided by the generated schedule bytes, afterwards by a PRNG seeded from them): 1-3 nodes running the repository's NodeController / Storage / client listener / lease loop (and in a quarter of the cases the Monitor) unmodified on the real walrus-rust engine, rollover threshold 1-4 entries, 1-2 topics, 2-4 lock-step clients with 1-11 PUT/GET operations each against generated nodes; metadata consensus is replaced by a linearisable in-order log whose followers apply at schedule-chosen later steps. After the clients finish the cluster is left to quiesce and one connection drains every topic through a generated node. Oracle: every PUT answered OK is returned by exactly one GET (client GETs + drain), no payload twice, nothing that was never PUT, PUTs answered ERR at most once; for GETs ordered in real time a producer's payloads come in acknowledgement order; the drain's EMPTY is only accepted when everything acknowledged has been returned. Non-trivial = a rollover was applied on some node while a PUT on that topic was in flight, or a topic was rolled over at least twice, or (>= 2 nodes) acknowledged PUTs were read back by client GETs. Two generators: general clusters, and single-node / one-producer-per-topic clusters with pure consumers (the shape in which rollovers are fenced while finding C22-rollover-count-race is open).";
            let rule23 = "same generated cluster runs as C22; after every scheduler step the byte size of every (topic, segment) log on every node is read through Storage::get_topic_size_blocking and compared with the previous step: a segment's size on node n must not grow after n applied the rollover that seals it, nor while n's applied metadata assigns the segment to another node. Non-trivial = at least one rollover in the metadata log, or at least two nodes with acknowledged PUTs.";
            let ctx = Ctx::new(
                prop,
                tier,
                seed,
                "exploration",
                if which == 22 { rule22 } else { rule23 },
                &["Raft is replaced by a linearisable in-order metadata log with arbitrary finite apply lag (octopii stand-in); tokio by a deterministic executor: every behaviour it shows is a behaviour real tokio can show, true parallelism is not explored", "bincode stand-in codec"],
            );
            regressions(&ctx);
            simdrv::data_search(&ctx, which, tier.pick(2000, 60_000));
            ctx.finish(tier.pick(100, 2000))
        }
        "C24" => {
            let ctx = Ctx::new(
                "C24",
                tier,
                seed,
                "exploration",
                "generated byte streams of 1-13 frames plus a closing probe PUT, cut into generated chunk sizes and written to a connection accepted by the repository's start_client_listener (single simulated node, stand-in TcpStream = in-memory duplex, generated task schedule): valid REGISTER/PUT/GET/STATE/METRICS frames with payloads containing inner/leading/trailing whitespace, newlines and multi-byte characters, zero-length frames, frames announcing more than 64 KiB whose announced body (containing what looks like further frames) is really sent, invalid UTF-8, unknown verbs, incomplete commands. Oracle: exactly one response per frame, in order; each response has the class of its frame (OK / EMPTY|OK payload / ERR / JSON); every GET returns the oldest unread PUT payload of that topic byte-identically modulo the command line's trailing whitespace. Non-trivial = a malformed frame is followed by at least one valid frame on the same connection.",
                &["single node, single connection: GET order is FIFO over that connection's own PUTs", "stand-in tokio/octopii as for C22"],
            );
            regressions(&ctx);
            simdrv::proto_search(&ctx, tier.pick(2500, 60_000));
            ctx.finish(tier.pick(40, 800))
        }
        other => {
            eprintln!("unknown property {}", other);
            2
        }
    }
}

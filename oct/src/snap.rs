//! C20 clause (b): snapshot transfer through octopii's Raft state-machine adapter
//! (`MemStateMachine` in octopii/src/openraft/storage.rs) with the real `Metadata` state machine
//! of distributed-walrus behind it. openraft itself is the type-level stand-in; the adapter code,
//! the metadata code and the command codec path are the repository's.
//!
//! A case: the sender applies s1 through the adapter (entries with log ids, blank and membership
//! entries mixed in), builds a snapshot, goes on applying `gap`; a receiver (fresh, or a lagging
//! replica that applied a prefix of s1) installs that snapshot, applies `gap`, then both apply s2.
//! Oracles: after the install the receiver's metadata (through the public getters) equals the
//! sender's as of the build, its applied_state equals the snapshot's meta, its current snapshot
//! is the installed one; after every later command both answer the same and hold the same state;
//! a third node that installs the receiver's current snapshot equals the snapshot state too.
use crate::engine::*;
use crate::meta::{cmd_strategy, encode, names_of, short, topic_of, view, Canon, Cmd};
use crate::metadata::Metadata;
use crate::openraft::storage::new_mem_state_machine;
use crate::openraft::types::{AppEntry, AppResponse, AppTypeConfig};
use ::openraft::storage::{RaftSnapshotBuilder, RaftStateMachine, Responder, SnapshotMeta};
use ::openraft::{Entry, EntryPayload, LogId, Membership};
use proptest::prelude::*;
use serde::{Deserialize, Serialize};
use serde_json::{json, Value};
use std::collections::BTreeSet;
use std::sync::Arc;

#[derive(Clone, Debug, Serialize, Deserialize, PartialEq, Eq, Hash)]
pub enum Item {
    Cmd(Cmd),
    Blank,
    /// a membership change to the voter set {1..=n}
    Members(u8),
}

#[derive(Clone, Debug, Serialize, Deserialize)]
pub struct SnapCase {
    pub s1: Vec<Item>,
    /// how much of s1 the receiver applied itself before the install (0 = a fresh node)
    pub receiver_prefix: u16,
    pub gap: Vec<Item>,
    pub s2: Vec<Item>,
    /// entries per apply() call
    pub batch: u8,
    /// a third node installs the receiver's current snapshot
    pub relay: bool,
}

fn item_strategy() -> BoxedStrategy<Item> {
    prop_oneof![12 => cmd_strategy().prop_map(Item::Cmd), 1 => Just(Item::Blank), 1 => (1u8..=3).prop_map(Item::Members)].boxed()
}

pub fn case_strategy() -> BoxedStrategy<SnapCase> {
    (
        proptest::collection::vec(item_strategy(), 0..60),
        any::<u16>(),
        proptest::collection::vec(item_strategy(), 0..12),
        proptest::collection::vec(item_strategy(), 0..40),
        1u8..=5,
        any::<bool>(),
    )
        .prop_map(|(s1, receiver_prefix, gap, s2, batch, relay)| SnapCase { s1, receiver_prefix, gap, s2, batch, relay })
        .boxed()
}

type Sm = Arc<crate::openraft::storage::MemStateMachine>;

struct Node {
    meta: Arc<Metadata>,
    sm: Sm,
}

fn node() -> Node {
    let meta = Arc::new(Metadata::new());
    let sm = new_mem_state_machine(meta.clone());
    Node { meta, sm }
}

fn entry(index: u64, it: &Item) -> Entry<AppTypeConfig> {
    let payload = match it {
        Item::Cmd(c) => EntryPayload::Normal(AppEntry(encode(c))),
        Item::Blank => EntryPayload::Blank,
        Item::Members(n) => EntryPayload::Membership(Membership { configs: vec![(1..=*n as u64).collect()] }),
    };
    Entry { log_id: LogId::new(1, 1, index), payload }
}

/// applies items[..] as entries first_index.. in calls of `batch` entries; an entry whose
/// application command is refused ends its call (the adapter reports the error), so such a
/// command always travels alone. Returns one rendered answer per item.
fn apply_items(n: &Node, first_index: u64, items: &[Item], batch: usize, risky: &[bool]) -> Result<Vec<String>, String> {
    let mut answers = Vec::new();
    let mut i = 0usize;
    let risky = |k: usize| risky[(first_index as usize - 1) + k];
    while i < items.len() {
        let mut j = i + 1;
        if !risky(i) {
            while j < items.len() && j - i < batch && !risky(j) {
                j += 1;
            }
        }
        let out = std::rc::Rc::new(std::cell::RefCell::new(Vec::<AppResponse>::new()));
        let ents: Vec<Result<(Entry<AppTypeConfig>, Option<Responder<AppTypeConfig>>), std::io::Error>> =
            (i..j).map(|k| Ok((entry(first_index + k as u64, &items[k]), Some(Responder { out: out.clone() })))).collect();
        let mut sm = n.sm.clone();
        let r = std::panic::catch_unwind(std::panic::AssertUnwindSafe(|| crate::block_on(async move { sm.apply(futures::stream::iter(ents)).await.map_err(|e| e.to_string()) })));
        match r {
            Err(_) => return Err(format!("apply of entries {}..{} panicked", first_index + i as u64, first_index + j as u64)),
            Ok(Ok(())) => {
                let got = out.borrow();
                if got.len() != j - i {
                    return Err(format!("apply of {} entries answered {} of them", j - i, got.len()));
                }
                for g in got.iter() {
                    answers.push(format!("Ok({})", String::from_utf8_lossy(&g.0)));
                }
            }
            Ok(Err(e)) => {
                if j - i != 1 {
                    return Err(format!("apply of valid commands {}..{} failed: {}", first_index + i as u64, first_index + j as u64, e));
                }
                answers.push(format!("Err({})", e));
            }
        }
        i = j;
    }
    Ok(answers)
}

fn applied(n: &Node) -> Result<String, String> {
    let mut sm = n.sm.clone();
    crate::block_on(async move { sm.applied_state().await.map(|(l, m)| format!("{:?} {:?}", l, m)).map_err(|e| e.to_string()) })
}

pub struct Out {
    pub violation: Option<String>,
    pub features: BTreeSet<String>,
}

pub fn run_case(c: &SnapCase) -> Out {
    let mut f = BTreeSet::new();
    let v = run_inner(c, &mut f).err();
    Out { violation: v, features: f }
}

/// per log position: may the application refuse this command? (anything that is not a valid
/// encoding, and a rollover of a topic no earlier entry created) - such an entry travels alone
fn risky_positions(c: &SnapCase) -> Vec<bool> {
    let mut known: BTreeSet<String> = BTreeSet::new();
    let mut out = Vec::new();
    for it in c.s1.iter().chain(c.gap.iter()).chain(c.s2.iter()) {
        out.push(match it {
            Item::Cmd(Cmd::Create { name, .. }) => {
                known.insert(name.clone());
                false
            }
            Item::Cmd(Cmd::Upsert { .. }) | Item::Blank | Item::Members(_) => false,
            Item::Cmd(Cmd::Rollover { name, .. }) => !known.contains(name),
            Item::Cmd(_) => true,
        });
    }
    out
}

fn cmds_of(items: &[Item]) -> Vec<Cmd> {
    items.iter().filter_map(|i| if let Item::Cmd(c) = i { Some(c.clone()) } else { None }).collect()
}

fn run_inner(c: &SnapCase, f: &mut BTreeSet<String>) -> Result<(), String> {
    let batch = c.batch.max(1) as usize;
    let risky = risky_positions(c);
    let mut names = BTreeSet::new();
    names_of(&cmds_of(&c.s1), &mut names);
    names_of(&cmds_of(&c.gap), &mut names);
    names_of(&cmds_of(&c.s2), &mut names);
    let a = node();
    let b = node();
    // the receiver's own prefix of the log
    let k = (c.receiver_prefix as usize * (c.s1.len() + 1)) >> 16;
    let ans_a = apply_items(&a, 1, &c.s1, batch, &risky)?;
    if k > 0 {
        let ans_b = apply_items(&b, 1, &c.s1[..k], batch, &risky)?;
        if ans_b[..] != ans_a[..k] {
            return Err("the receiver's own prefix was answered differently from the sender's".into());
        }
        f.insert("receiver_has_applied_a_prefix".into());
    }
    let mut rolled: BTreeSet<String> = BTreeSet::new();
    for (it, ans) in c.s1.iter().zip(ans_a.iter()) {
        if let Item::Cmd(cmd @ Cmd::Rollover { .. }) = it {
            if ans.starts_with("Ok") {
                rolled.insert(topic_of(cmd).unwrap().to_string());
            }
        }
    }
    // build on the sender
    let (meta, bytes): (SnapshotMeta<AppTypeConfig>, Vec<u8>) = {
        let mut sm = a.sm.clone();
        let r = std::panic::catch_unwind(std::panic::AssertUnwindSafe(|| {
            crate::block_on(async move {
                let mut builder = sm.get_snapshot_builder().await;
                builder.build_snapshot().await.map(|s| (s.meta, s.snapshot.into_inner())).map_err(|e| e.to_string())
            })
        }));
        match r {
            Err(_) => return Err("build_snapshot panicked".into()),
            Ok(Err(e)) => return Err(format!("build_snapshot failed: {e}")),
            Ok(Ok(x)) => x,
        }
    };
    let at_build: Canon = view(&a.meta, &names);
    let applied_at_build = applied(&a)?;
    if !at_build_is_empty(&at_build) {
        f.insert("snapshot_of_a_state_with_topics".into());
    }
    if !rolled.is_empty() {
        f.insert("snapshot_after_rollover".into());
    }
    // the sender goes on
    let gap_a = apply_items(&a, 1 + c.s1.len() as u64, &c.gap, batch, &risky)?;
    // install on the receiver
    install(&b, &meta, bytes.clone()).map_err(|e| format!("the receiver could not install the sender's snapshot ({} bytes, built after {} entries): {}", bytes.len(), c.s1.len(), e))?;
    let vb = view(&b.meta, &names);
    if vb != at_build {
        return Err(format!("after installing the snapshot the receiver's metadata differs from the sender's as of the build: sender {:?} receiver {:?}", at_build, vb).chars().take(700).collect());
    }
    let applied_b = applied(&b)?;
    if applied_b != applied_at_build {
        return Err(format!("applied_state after install is {} but the sender built the snapshot at {}", applied_b, applied_at_build));
    }
    {
        let mut sm = b.sm.clone();
        let cur = crate::block_on(async move { sm.get_current_snapshot().await.map(|o| o.map(|s| (s.meta, s.snapshot.into_inner()))).map_err(|e| e.to_string()) })?;
        match cur {
            Some((m, d)) if m.snapshot_id == meta.snapshot_id && d == bytes => {}
            Some((m, d)) => return Err(format!("the receiver's current snapshot is {} ({} bytes), installed was {} ({} bytes)", m.snapshot_id, d.len(), meta.snapshot_id, bytes.len())),
            None => return Err("the receiver has no current snapshot after an install".into()),
        }
    }
    if c.relay {
        let third = node();
        let mut sm = b.sm.clone();
        let (m2, d2) = crate::block_on(async move { sm.get_current_snapshot().await.map(|o| o.map(|s| (s.meta, s.snapshot.into_inner()))).map_err(|e| e.to_string()) })?.ok_or("no current snapshot")?;
        install(&third, &m2, d2).map_err(|e| format!("a third node could not install the snapshot relayed by the receiver: {e}"))?;
        if view(&third.meta, &names) != at_build {
            return Err("a third node that installed the snapshot relayed by the receiver differs from the snapshot state".into());
        }
        f.insert("relayed_to_third_node".into());
    }
    // the receiver catches up with what the sender applied since the build
    let gap_b = apply_items(&b, 1 + c.s1.len() as u64, &c.gap, batch, &risky)?;
    if gap_a != gap_b {
        return Err(format!("the commands after the snapshot were answered differently: sender {:?} receiver {:?}", gap_a, gap_b).chars().take(600).collect());
    }
    if view(&a.meta, &names) != view(&b.meta, &names) {
        return Err("after catching up with the entries behind the snapshot the replicas differ".into());
    }
    if !c.gap.is_empty() {
        f.insert("entries_between_build_and_install".into());
    }
    let base = 1 + (c.s1.len() + c.gap.len()) as u64;
    for (i, it) in c.s2.iter().enumerate() {
        let ra = apply_items(&a, base + i as u64, std::slice::from_ref(it), 1, &risky)?;
        let rb = apply_items(&b, base + i as u64, std::slice::from_ref(it), 1, &risky)?;
        if ra != rb {
            return Err(format!("entry #{} of the common suffix {:?} answered {:?} on the sender and {:?} on the receiver", i, it, ra, rb).chars().take(600).collect());
        }
        if view(&a.meta, &names) != view(&b.meta, &names) {
            return Err(format!("after entry #{} of the common suffix ({:?}) the replicas differ", i, it).chars().take(400).collect());
        }
        if let Item::Cmd(cmd) = it {
            if let Some(t) = topic_of(cmd) {
                if rolled.contains(t) {
                    f.insert("suffix_touches_rolled_topic".into());
                }
            }
        }
    }
    if applied(&a)? != applied(&b)? {
        return Err("applied_state differs after the common suffix".into());
    }
    Ok(())
}

fn at_build_is_empty(c: &Canon) -> bool {
    serde_json::to_value(c).map(|v| v.get("topics").and_then(|t| t.as_object()).map(|o| o.is_empty()).unwrap_or(true)).unwrap_or(true)
}

fn install(n: &Node, meta: &SnapshotMeta<AppTypeConfig>, bytes: Vec<u8>) -> Result<(), String> {
    let mut sm = n.sm.clone();
    let meta = meta.clone();
    let r = std::panic::catch_unwind(std::panic::AssertUnwindSafe(|| {
        crate::block_on(async move {
            // what openraft does: take the receiving buffer, fill it with the chunks, install
            let mut buf = sm.begin_receiving_snapshot().await.map_err(|e| e.to_string())?;
            std::io::Write::write_all(&mut buf, &bytes).map_err(|e| e.to_string())?;
            buf.set_position(0);
            sm.install_snapshot(&meta, buf).await.map_err(|e| e.to_string())
        })
    }));
    match r {
        Err(_) => Err("install_snapshot panicked".into()),
        Ok(x) => x,
    }
}

fn nontrivial(f: &BTreeSet<String>) -> bool {
    f.contains("snapshot_after_rollover") && (f.contains("suffix_touches_rolled_topic") || f.contains("entries_between_build_and_install"))
}

pub fn replay(body: &Value) -> Result<Option<String>, String> {
    let c: SnapCase = serde_json::from_value(body.get("case").cloned().ok_or("no case")?).map_err(|e| e.to_string())?;
    Ok(run_case(&c).violation)
}

pub fn run_c20b(tier: Tier, seed: u64) -> i32 {
    let ctx = Ctx::new(
        "C20",
        tier,
        seed,
        "exploration",
        "clause (b), through octopii's Raft state-machine adapter (MemStateMachine, repository source, on a type-level stand-in for openraft) with the real distributed-walrus Metadata behind it: generated logs of metadata commands (valid, undecodable, mutated), blank and membership entries are applied through apply() in calls of 1-5 entries; the sender builds a snapshot through get_snapshot_builder/build_snapshot and goes on applying; a receiver (fresh or a replica that applied a prefix itself) installs it through begin_receiving_snapshot/install_snapshot, applies the entries behind the snapshot and then a common suffix; optionally a third node installs the receiver's current snapshot. Oracles: receiver metadata (public getters) = sender metadata as of the build; applied_state = snapshot meta; current snapshot = installed one; equal answers and equal metadata after every later entry. Non-trivial = the snapshot was built after an applied rollover and later entries touch a rolled topic or lie between build and install.",
        &["openraft is a type-level stand-in (data carriers and trait declarations): what is exercised is the adapter's own code and the application state machine, not openraft's snapshot streaming"],
    );
    for fl in regress_files("C20") {
        if let Ok(s) = std::fs::read_to_string(&fl) {
            if let Ok(body) = serde_json::from_str::<Value>(&s) {
                if body.get("kind").and_then(|k| k.as_str()) != Some("c20-adapter") {
                    continue;
                }
                let mut rep = CaseReport::default();
                rep.features.insert("regression_replay".into());
                ctx.record(str_hash(&s), &rep);
                if let Ok(Some(m)) = replay(&body) {
                    ctx.violations.lock().unwrap().push((format!("regression replay fails again: {}", m), fl.clone()));
                    ctx.stop.store(true, std::sync::atomic::Ordering::SeqCst);
                }
            }
        }
    }
    let q = tier == Tier::Quick;
    let s = Search {
        name: "adapter-build-install-then-common-suffix".to_string(),
        strategy: Box::new(case_strategy),
        run: Box::new(|c: &SnapCase| {
            let o = run_case(c);
            let mut rep = CaseReport::default();
            rep.nontrivial = nontrivial(&o.features);
            rep.features = o.features;
            rep.sample = Some(json!({"s1": c.s1.len(), "receiver_prefix": c.receiver_prefix, "gap": c.gap.len(), "s2": c.s2.len(), "batch": c.batch, "relay": c.relay, "s1_head": c.s1.iter().take(4).map(|i| format!("{:?}", i).chars().take(80).collect::<String>()).collect::<Vec<_>>()}));
            if let Some(m) = o.violation {
                rep.violation = Some((m.clone(), json!({"kind": "c20-adapter", "property": "C20", "case": c, "message": m})));
            }
            rep
        }),
        cases: if q { 6_000 } else { 400_000 },
        workers: 16,
        max_shrink_iters: 3000,
        shrink_secs: 120,
    };
    run_search(&ctx, &s);
    ctx.finish(if q { 200 } else { 2000 })
}

//! C21 driver: generated histories with restarts, model of the acknowledged state.
use crate::engine::*;
use crate::{hash, record, XOp, XResp};
use proptest::prelude::*;
use serde::{Deserialize, Serialize};
use serde_json::{json, Value};
use std::collections::{BTreeMap, BTreeSet};
use std::io::{BufRead, BufReader, Write};
use std::process::{Child, ChildStdin, Command, Stdio};

static CTR: std::sync::atomic::AtomicU64 = std::sync::atomic::AtomicU64::new(0);

struct Proc {
    child: Child,
    stdin: Option<ChildStdin>,
    rx: std::sync::mpsc::Receiver<String>,
}

impl Proc {
    fn spawn(base: &str, flush_ms: u64) -> Result<Proc, String> {
        let exe = std::env::current_exe().unwrap();
        let mut child = Command::new(exe)
            .arg("exec")
            .env("WSTORE_BASE", base)
            .env("WSTORE_FLUSH_MS", flush_ms.to_string())
            .env("WALRUS_QUIET", "1")
            .env_remove("WALRUS_DATA_DIR")
            .stdin(Stdio::piped())
            .stdout(Stdio::piped())
            .stderr(Stdio::null())
            .spawn()
            .map_err(|e| e.to_string())?;
        let stdin = child.stdin.take();
        let so = child.stdout.take().unwrap();
        let (tx, rx) = std::sync::mpsc::channel();
        std::thread::spawn(move || {
            for l in BufReader::new(so).lines() {
                let Ok(l) = l else { break };
                if let Some(r) = l.strip_prefix("@@ ") {
                    if tx.send(r.to_string()).is_err() {
                        break;
                    }
                }
            }
        });
        Ok(Proc { child, stdin, rx })
    }
    fn call(&mut self, op: &XOp) -> Result<XResp, String> {
        let s = serde_json::to_string(op).unwrap();
        if let Some(si) = self.stdin.as_mut() {
            let _ = si.write_all(s.as_bytes());
            let _ = si.write_all(b"\n");
            let _ = si.flush();
        }
        match self.rx.recv_timeout(std::time::Duration::from_secs(60)) {
            Ok(l) => serde_json::from_str::<XResp>(&l).map_err(|e| format!("bad response {e}: {l}")),
            Err(std::sync::mpsc::RecvTimeoutError::Timeout) => {
                let _ = self.child.kill();
                Err("timeout".into())
            }
            Err(_) => Err("child ended".into()),
        }
    }
    /// clean end of a lifetime: close stdin, the process leaves through its normal path
    fn close(mut self, kill: bool) {
        if kill {
            let _ = self.child.kill();
        } else {
            self.stdin.take();
        }
        let t0 = std::time::Instant::now();
        loop {
            match self.child.try_wait() {
                Ok(Some(_)) => break,
                Ok(None) if t0.elapsed().as_secs() < 30 => std::thread::sleep(std::time::Duration::from_millis(1)),
                _ => {
                    let _ = self.child.kill();
                    let _ = self.child.wait();
                    break;
                }
            }
        }
    }
}

impl Drop for Proc {
    fn drop(&mut self) {
        let _ = self.child.kill();
        let _ = self.child.wait();
    }
}

// ------------------------------------------------------------------------------------------ layer 1

#[derive(Clone, Debug, Serialize, Deserialize, PartialEq, Eq, Hash)]
pub enum L1 {
    Append { len: u32 },
    /// n appends of len bytes each: a log larger than one read batch (10 MiB) made of records
    /// large enough for the byte budget, not the entry cap, to end a batch
    Bulk { n: u16, len: u32 },
    /// end this lifetime (clean exit, or SIGKILL right after the last acknowledged append)
    Reopen { kill: bool },
}

#[derive(Clone, Debug, Serialize, Deserialize, PartialEq, Eq, Hash)]
pub struct L1Case {
    pub ops: Vec<L1>,
    pub flush_ms: u64,
}

fn l1_strategy() -> BoxedStrategy<L1Case> {
    let len = prop_oneof![7 => 8u32..200, 3 => 200u32..5000, 1 => 5000u32..65536];
    (
        proptest::collection::vec(
            prop_oneof![
                32 => len.prop_map(|len| L1::Append { len }),
                8 => prop_oneof![4 => Just(false), 1 => Just(true)].prop_map(|kill| L1::Reopen { kill }),
            ],
            1..60,
        ),
        prop_oneof![Just(0u64), Just(1), Just(100)],
        proptest::option::weighted(0.15, (any::<u16>(), 150u16..=340, 36_000u32..65_536)),
    )
        .prop_map(|(mut ops, flush_ms, bulk)| {
            if let Some((pos, n, len)) = bulk {
                let at = (pos as usize * (ops.len() + 1)) >> 16;
                ops.insert(at, L1::Bulk { n, len });
            }
            L1Case { ops, flush_ms }
        })
        .boxed()
}

pub struct Out {
    pub violation: Option<String>,
    pub features: BTreeSet<String>,
    pub inconclusive: Option<String>,
    pub trace: Vec<String>,
    pub excluded: BTreeMap<String, u64>,
}

fn base_dir() -> String {
    let n = CTR.fetch_add(1, std::sync::atomic::Ordering::Relaxed);
    let p = format!("/dev/shm/wstore-{}-{}", std::process::id(), n);
    let _ = std::fs::remove_dir_all(&p);
    let _ = std::fs::create_dir_all(&p);
    p
}

pub fn run_l1(case: &L1Case, excl: &BTreeSet<String>) -> Out {
    let mut o = Out { violation: None, features: BTreeSet::new(), inconclusive: None, trace: Vec::new(), excluded: BTreeMap::new() };
    let base = base_dir();
    let mut acked: Vec<(u32, u64)> = Vec::new();
    let mut seq = 0u64;
    let mut lifetimes = 0;
    let res = (|| -> Result<(), String> {
        let mut ops: Vec<L1> = Vec::new();
        for op in &case.ops {
            match op {
                L1::Bulk { n, len } => {
                    o.features.insert("log_larger_than_one_read_batch".into());
                    for _ in 0..*n {
                        ops.push(L1::Append { len: *len });
                    }
                }
                other => ops.push(other.clone()),
            }
        }
        ops.push(L1::Reopen { kill: false });
        let mut p = Proc::spawn(&base, case.flush_ms)?;
        let mut opened = false;
        let mut iter = ops.into_iter();
        loop {
            if !opened {
                match p.call(&XOp::OpenWal)? {
                    XResp::Ok => {}
                    XResp::Panic(m) => {
                        o.violation = Some(format!("opening the WAL in lifetime {} panicked: {}", lifetimes + 1, m));
                        return Ok(());
                    }
                    other => {
                        o.violation = Some(format!("opening the WAL in lifetime {} failed: {:?}", lifetimes + 1, other));
                        return Ok(());
                    }
                }
                // what every user of WriteAheadLog does first: replay everything
                match p.call(&XOp::WalReadAll)? {
                    XResp::Records(v) => {
                        o.trace.push(format!("lifetime {}: read_all -> {} records (acknowledged so far: {})", lifetimes + 1, v.len(), acked.len()));
                        if v != acked {
                            let first_bad = v.iter().zip(acked.iter()).position(|(a, b)| a != b).unwrap_or(v.len().min(acked.len()));
                            o.violation = Some(format!(
                                "lifetime {}: read_all() returned {} records but {} had been acknowledged (first difference at record #{}); the reopened store does not report exactly the acknowledged records",
                                lifetimes + 1,
                                v.len(),
                                acked.len(),
                                first_bad
                            ));
                            return Ok(());
                        }
                        if lifetimes >= 2 && !acked.is_empty() {
                            o.features.insert("third_or_later_lifetime_with_records".into());
                        }
                        if lifetimes >= 1 && !acked.is_empty() {
                            o.features.insert("reopen_with_records".into());
                        }
                    }
                    XResp::Panic(m) => {
                        o.violation = Some(format!("read_all in lifetime {} panicked: {}", lifetimes + 1, m));
                        return Ok(());
                    }
                    other => {
                        o.violation = Some(format!("read_all failed: {:?}", other));
                        return Ok(());
                    }
                }
                opened = true;
                lifetimes += 1;
            }
            let Some(op) = iter.next() else { break };
            match op {
                L1::Append { len } => {
                    match p.call(&XOp::WalAppend { seq, len })? {
                        XResp::Ok => acked.push((len, hash(&record(seq, len)))),
                        XResp::Panic(m) => {
                            o.violation = Some(format!("append panicked: {}", m));
                            return Ok(());
                        }
                        other => o.trace.push(format!("append -> {:?}", other)),
                    }
                    seq += 1;
                }
                L1::Bulk { .. } => {}
                L1::Reopen { kill } => {
                    // known finding: read_all consumes with a durable cursor, so only one
                    // restart is survivable; later ones are excluded while it is open
                    if lifetimes >= 2 && excl.contains("second-restart-of-a-wal") {
                        *o.excluded.entry("second-restart-of-a-wal".into()).or_insert(0) += 1;
                        continue;
                    }
                    if kill {
                        o.features.insert("killed_after_acknowledged_append".into());
                    }
                    p.close(kill);
                    p = Proc::spawn(&base, case.flush_ms)?;
                    opened = false;
                }
            }
        }
        p.close(false);
        Ok(())
    })();
    if let Err(e) = res {
        o.inconclusive = Some(e);
    }
    let _ = std::fs::remove_dir_all(&base);
    o
}

// ------------------------------------------------------------------------------------------ layer 2

#[derive(Clone, Debug, Serialize, Deserialize, PartialEq, Eq, Hash)]
pub enum L2 {
    Append { n: u8, bump_term: bool },
    /// truncate the last `back` entries (conflict resolution by a new leader)
    Truncate { back: u8 },
    /// purge up to `frac`/256 of the way from the purge point to the last entry
    Purge { frac: u8 },
    SaveVote { bump: bool, committed: bool },
    SaveCommitted { frac: u8 },
    Reopen { kill: bool },
}

#[derive(Clone, Debug, Serialize, Deserialize, PartialEq, Eq, Hash)]
pub struct L2Case {
    pub ops: Vec<L2>,
    pub flush_ms: u64,
}

fn l2_strategy() -> BoxedStrategy<L2Case> {
    (
        proptest::collection::vec(
            prop_oneof![
                8 => (1u8..6, prop_oneof![4 => Just(false), 1 => Just(true)]).prop_map(|(n, bump_term)| L2::Append { n, bump_term }),
                2 => (1u8..4).prop_map(|back| L2::Truncate { back }),
                2 => any::<u8>().prop_map(|frac| L2::Purge { frac }),
                3 => (any::<bool>(), any::<bool>()).prop_map(|(bump, committed)| L2::SaveVote { bump, committed }),
                2 => any::<u8>().prop_map(|frac| L2::SaveCommitted { frac }),
                3 => prop_oneof![4 => Just(false), 1 => Just(true)].prop_map(|kill| L2::Reopen { kill }),
            ],
            1..50,
        ),
        prop_oneof![Just(0u64), Just(1), Just(100)],
    )
        .prop_map(|(ops, flush_ms)| L2Case { ops, flush_ms })
        .boxed()
}

#[derive(Clone, Debug, Default, PartialEq)]
struct StoreModel {
    log: BTreeMap<u64, (u64, u64)>, // index -> (term, payload hash)
    purged: Option<(u64, u64)>,
    vote: Option<(u64, u64, bool)>,
    committed: Option<(u64, u64)>,
    term: u64,
}

impl StoreModel {
    fn last(&self) -> Option<(u64, u64)> {
        self.log.iter().next_back().map(|(i, (t, _))| (*i, *t)).or(self.purged)
    }
    fn next_index(&self) -> u64 {
        self.last().map(|l| l.0 + 1).unwrap_or(0)
    }
    fn check(&self, r: &XResp, when: &str) -> Result<(), String> {
        match r {
            XResp::State { last, purged, vote, committed, entries } => {
                let exp_entries: Vec<(u64, u64, u64)> = self.log.iter().map(|(i, (t, h))| (*i, *t, *h)).collect();
                if *entries != exp_entries {
                    return Err(format!(
                        "{}: the store holds log entries {:?} but the acknowledged operations leave {:?}",
                        when,
                        entries.iter().map(|e| (e.0, e.1)).collect::<Vec<_>>(),
                        exp_entries.iter().map(|e| (e.0, e.1)).collect::<Vec<_>>()
                    ));
                }
                if *purged != self.purged {
                    return Err(format!("{}: purge point {:?}, acknowledged {:?}", when, purged, self.purged));
                }
                if *last != self.last() {
                    return Err(format!("{}: last log id {:?}, acknowledged {:?}", when, last, self.last()));
                }
                if *vote != self.vote {
                    return Err(format!("{}: vote {:?}, acknowledged {:?}", when, vote, self.vote));
                }
                if *committed != self.committed {
                    return Err(format!("{}: committed {:?}, acknowledged {:?}", when, committed, self.committed));
                }
                Ok(())
            }
            XResp::Panic(m) => Err(format!("{}: panicked: {}", when, m)),
            other => Err(format!("{}: {:?}", when, other)),
        }
    }
}

pub fn run_l2(case: &L2Case, excl: &BTreeSet<String>) -> Out {
    let mut o = Out { violation: None, features: BTreeSet::new(), inconclusive: None, trace: Vec::new(), excluded: BTreeMap::new() };
    let base = base_dir();
    let mut m = StoreModel { term: 1, ..Default::default() };
    let mut lifetimes = 0;
    let res = (|| -> Result<(), String> {
        let mut ops = case.ops.clone();
        ops.push(L2::Reopen { kill: false });
        let mut p = Some(Proc::spawn(&base, case.flush_ms)?);
        let mut opened = false;
        let mut iter = ops.into_iter();
        loop {
            if !opened {
                match p.as_mut().unwrap().call(&XOp::OpenStore)? {
                    XResp::Ok => {}
                    XResp::Panic(msg) => {
                        o.violation = Some(format!("opening the log store in lifetime {} panicked: {}", lifetimes + 1, msg));
                        return Ok(());
                    }
                    other => {
                        o.violation = Some(format!("opening the log store in lifetime {} failed: {:?}", lifetimes + 1, other));
                        return Ok(());
                    }
                }
                let st = p.as_mut().unwrap().call(&XOp::State)?;
                if let Err(e) = m.check(&st, &format!("lifetime {} after reopen", lifetimes + 1)) {
                    o.violation = Some(e);
                    return Ok(());
                }
                if lifetimes >= 1 && (!m.log.is_empty() || m.vote.is_some()) {
                    o.features.insert("reopen_with_state".into());
                }
                if lifetimes >= 2 && !m.log.is_empty() {
                    o.features.insert("third_or_later_lifetime_with_entries".into());
                }
                opened = true;
                lifetimes += 1;
            }
            let Some(op) = iter.next() else { break };
            let mut expect_ok = |r: XResp, what: &str| -> Result<bool, String> {
                match r {
                    XResp::Ok => Ok(true),
                    XResp::Panic(msg) => Err(format!("{} panicked: {}", what, msg)),
                    XResp::Err(e) => {
                        let _ = e;
                        Ok(false)
                    }
                    other => Err(format!("{}: {:?}", what, other)),
                }
            };
            let step: Result<(), String> = (|| {
                match op {
                    L2::Append { n, bump_term } => {
                        if bump_term {
                            m.term += 1;
                        }
                        let from = m.next_index();
                        if expect_ok(p.as_mut().unwrap().call(&XOp::Append { from, n: n as u64, term: m.term }).map_err(|e| format!("!{e}"))?, "append")? {
                            for i in from..from + n as u64 {
                                m.log.insert(i, (m.term, hash(&record(i ^ (m.term << 40), 24))));
                            }
                        }
                    }
                    L2::Truncate { back } => {
                        let Some((last, _)) = m.log.iter().next_back().map(|(i, t)| (*i, t.0)) else { return Ok(()) };
                        let first = *m.log.keys().next().unwrap();
                        let index = last.saturating_sub(back as u64 - 1).max(first);
                        let term = m.log[&index].0;
                        if expect_ok(p.as_mut().unwrap().call(&XOp::Truncate { index, term }).map_err(|e| format!("!{e}"))?, "truncate")? {
                            let keys: Vec<u64> = m.log.range(index..).map(|(k, _)| *k).collect();
                            for k in keys {
                                m.log.remove(&k);
                            }
                            if let Some((ci, _)) = m.committed {
                                let _ = ci;
                            }
                            o.features.insert("truncate".into());
                        }
                    }
                    L2::Purge { frac } => {
                        if m.log.is_empty() {
                            return Ok(());
                        }
                        let first = *m.log.keys().next().unwrap();
                        let last = *m.log.keys().next_back().unwrap();
                        let index = first + ((last - first) * frac as u64) / 256;
                        let term = m.log[&index].0;
                        if expect_ok(p.as_mut().unwrap().call(&XOp::Purge { index, term }).map_err(|e| format!("!{e}"))?, "purge")? {
                            let keys: Vec<u64> = m.log.range(..=index).map(|(k, _)| *k).collect();
                            for k in keys {
                                m.log.remove(&k);
                            }
                            m.purged = Some((index, term));
                            o.features.insert("purge".into());
                        }
                    }
                    L2::SaveVote { bump, committed } => {
                        let term = m.vote.map(|v| v.0).unwrap_or(m.term) + if bump { 1 } else { 0 };
                        if expect_ok(p.as_mut().unwrap().call(&XOp::SaveVote { term, node: 1, committed }).map_err(|e| format!("!{e}"))?, "save_vote")? {
                            m.vote = Some((term, 1, committed));
                        }
                    }
                    L2::SaveCommitted { frac } => {
                        let idx = if m.log.is_empty() {
                            None
                        } else {
                            let first = *m.log.keys().next().unwrap();
                            let last = *m.log.keys().next_back().unwrap();
                            Some(first + ((last - first) * frac as u64) / 256)
                        };
                        let term = idx.map(|i| m.log[&i].0).unwrap_or(0);
                        if expect_ok(p.as_mut().unwrap().call(&XOp::SaveCommitted { index: idx, term }).map_err(|e| format!("!{e}"))?, "save_committed")? {
                            m.committed = idx.map(|i| (i, term));
                        }
                    }
                    L2::Reopen { kill } => {
                        if lifetimes >= 2 && excl.contains("second-restart-of-a-wal") {
                            *o.excluded.entry("second-restart-of-a-wal".into()).or_insert(0) += 1;
                            return Ok(());
                        }
                        if kill {
                            o.features.insert("killed_after_acknowledged_operation".into());
                        }
                        let old = p.take().unwrap();
                        old.close(kill);
                        p = Some(Proc::spawn(&base, case.flush_ms).map_err(|e| format!("!{e}"))?);
                        opened = false;
                    }
                }
                Ok(())
            })();
            if let Err(e) = step {
                if let Some(h) = e.strip_prefix('!') {
                    return Err(h.to_string());
                }
                o.violation = Some(e);
                return Ok(());
            }
        }
        if let Some(x) = p.take() {
            x.close(false);
        }
        Ok(())
    })();
    if let Err(e) = res {
        o.inconclusive = Some(e);
    }
    let _ = std::fs::remove_dir_all(&base);
    o
}

// ------------------------------------------------------------------------------------------

fn report(case: Value, kind: &str, o: Out, nontrivial: bool) -> CaseReport {
    let mut rep = CaseReport::default();
    rep.features = o.features.clone();
    rep.excluded = o.excluded.clone();
    rep.inconclusive = o.inconclusive.clone();
    rep.nontrivial = o.inconclusive.is_none() && nontrivial;
    if let Some(m) = &o.violation {
        rep.violation = Some((m.clone(), json!({"kind": kind, "property": "C21", "case": case, "message": m, "trace": o.trace})));
    }
    rep.sample = Some(json!({"layer": kind, "case": case, "features": o.features}));
    rep
}

pub fn replay(body: &Value) -> Result<Option<String>, String> {
    let excl: BTreeSet<String> = BTreeSet::new();
    match body.get("kind").and_then(|k| k.as_str()) {
        Some("c21-wal") => {
            let c: L1Case = serde_json::from_value(body.get("case").cloned().ok_or("no case")?).map_err(|e| e.to_string())?;
            let o = run_l1(&c, &excl);
            if let Some(i) = o.inconclusive {
                return Err(i);
            }
            Ok(o.violation)
        }
        Some("c21-store") => {
            let c: L2Case = serde_json::from_value(body.get("case").cloned().ok_or("no case")?).map_err(|e| e.to_string())?;
            let o = run_l2(&c, &excl);
            if let Some(i) = o.inconclusive {
                return Err(i);
            }
            Ok(o.violation)
        }
        _ => Err("unknown kind".into()),
    }
}

pub fn run_c21(tier: Tier, seed: u64) -> i32 {
    let ctx = Ctx::new(
        "C21",
        tier,
        seed,
        "exploration",
        "two layers, repository sources included unmodified. Layer 1 - octopii/src/wal/mod.rs (WriteAheadLog on octopii's private Walrus copy), the only persistence mechanism of the Raft log store and of the peer address book: generated histories of append(record of 8 B - 64 KiB; both users store serialised records, never empty ones) and restarts (clean process exit, or SIGKILL right after the last acknowledged append), flush interval 0 / 1 / 100 ms; in every lifetime the store is opened and read_all() - what both users do at start-up - must return exactly the acknowledged records in order. Layer 2 - octopii/src/openraft/storage.rs (WalLogStore) on a type-level stand-in for openraft: generated Raft-shaped histories of append (contiguous indices, non-decreasing terms), truncate, purge, save_vote, save_committed and restarts; after every reopen get_log_state / read_vote / read_committed / try_get_log_entries must equal an in-memory model of the acknowledged operations. Non-trivial = a reopen with acknowledged records / state (two or more reopens when no known-finding exclusion is active).",
        &["openraft is replaced by a type-level stand-in (data carriers and trait declarations, no consensus logic); tokio by the deterministic stand-in executor", "the peer address book's own helpers in node.rs cannot be compiled offline; it is covered through the WriteAheadLog it delegates to"],
    );
    // regressions / probes
    for f in regress_files("C21") {
        if let Ok(s) = std::fs::read_to_string(&f) {
            if let Ok(body) = serde_json::from_str::<Value>(&s) {
                let mut rep = CaseReport::default();
                rep.features.insert("regression_replay".into());
                match replay(&body) {
                    Ok(Some(m)) => {
                        ctx.record(str_hash(&s), &rep);
                        ctx.violations.lock().unwrap().push((format!("regression replay fails again: {}", m), f.clone()));
                        ctx.stop.store(true, std::sync::atomic::Ordering::SeqCst);
                    }
                    _ => ctx.record(str_hash(&s), &rep),
                }
            }
        }
    }
    for fd in open_findings("C21") {
        if let Some(p) = &fd.probe {
            if let Ok(s) = std::fs::read_to_string(format!("{}/{}", verif_root(), p)) {
                if let Ok(body) = serde_json::from_str::<Value>(&s) {
                    let mut rep = CaseReport::default();
                    rep.features.insert("known_finding_probe".into());
                    ctx.record(str_hash(&s), &rep);
                    if let Ok(Some(_)) = replay(&body) {
                        ctx.known_findings.lock().unwrap().push(format!("{} {} (probe {} reproduced)", fd.id, fd.what, p));
                    }
                }
            }
        }
    }
    let excl = exclusions_for("C21");
    let q = tier == Tier::Quick;
    let e1 = excl.clone();
    let s1 = Search {
        name: "write-ahead-log".to_string(),
        strategy: Box::new(l1_strategy),
        run: Box::new(move |c: &L1Case| {
            let o = run_l1(c, &e1);
            let nt = o.features.contains("reopen_with_records");
            report(serde_json::to_value(c).unwrap(), "c21-wal", o, nt)
        }),
        cases: if q { 1200 } else { 30_000 },
        workers: 16,
        max_shrink_iters: 200,
        shrink_secs: 240,
    };
    run_search(&ctx, &s1);
    let e2 = excl.clone();
    let s2 = Search {
        name: "raft-log-store".to_string(),
        strategy: Box::new(l2_strategy),
        run: Box::new(move |c: &L2Case| {
            let o = run_l2(c, &e2);
            let nt = o.features.contains("reopen_with_state");
            report(serde_json::to_value(c).unwrap(), "c21-store", o, nt)
        }),
        cases: if q { 1200 } else { 30_000 },
        workers: 16,
        max_shrink_iters: 200,
        shrink_secs: 240,
    };
    run_search(&ctx, &s2);
    ctx.finish(tier.pick(60, 1000))
}

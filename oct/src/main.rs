//! E8 (C21): octopii's durable stores across restarts.
//!   layer 1: `octopii/src/wal/mod.rs` (`WriteAheadLog`, on octopii's private Walrus copy) - the
//!            only persistence mechanism of both the Raft log store and the peer address book;
//!   layer 2: `octopii/src/openraft/storage.rs` (`WalLogStore`) on a type-level stand-in for
//!            openraft.
//! All repository sources are `#[path]`-included unmodified. Every process lifetime of a case
//! runs in a child (`wstore exec`).
#![allow(dead_code, unused_imports, unused)]
#[path = "../../harness/src/engine.rs"]
mod engine;
mod error {
    #[derive(Debug)]
    pub enum OctopiiError {
        Io(std::io::Error),
        Wal(String),
        Rpc(String),
    }
    impl std::fmt::Display for OctopiiError {
        fn fmt(&self, f: &mut std::fmt::Formatter<'_>) -> std::fmt::Result {
            write!(f, "{:?}", self)
        }
    }
    impl std::error::Error for OctopiiError {}
    pub type Result<T> = std::result::Result<T, OctopiiError>;
}
#[path = "/repo/octopii/src/wal/mod.rs"]
mod wal;
mod state_machine {
    pub use octopii::{StateMachine, StateMachineTrait};
}
mod openraft {
    #[path = "/repo/octopii/src/openraft/types.rs"]
    pub mod types;
    #[path = "/repo/octopii/src/openraft/storage.rs"]
    pub mod storage;
}
mod drv;
/// distributed-walrus' metadata state machine and the C18/C20 command generators (clause (b) of C20)
#[path = "/repo/distributed-walrus/src/metadata.rs"]
pub mod metadata;
mod dw {
    #[path = "/repo/distributed-walrus/src/controller/types.rs"]
    pub mod wal_types;
}
#[path = "../../dist/src/meta.rs"]
mod meta;
mod snap;

use crate::openraft::types::{AppEntry, AppTypeConfig};
use ::openraft::storage::{IOFlushed, RaftLogStorage};
use ::openraft::{Entry, EntryPayload, LeaderId, LogId, RaftLogReader, Vote};
use serde::{Deserialize, Serialize};
use std::io::{BufRead, Write};
use std::sync::Arc;

#[derive(Clone, Debug, Serialize, Deserialize, PartialEq, Eq, Hash)]
pub enum XOp {
    OpenWal,
    /// record `seq` of `len` bytes
    WalAppend { seq: u64, len: u32 },
    WalReadAll,
    OpenStore,
    /// entries from..from+n with the given term
    Append { from: u64, n: u64, term: u64 },
    Truncate { index: u64, term: u64 },
    Purge { index: u64, term: u64 },
    SaveVote { term: u64, node: u64, committed: bool },
    SaveCommitted { index: Option<u64>, term: u64 },
    State,
}

#[derive(Clone, Debug, Serialize, Deserialize, PartialEq, Eq)]
pub enum XResp {
    Ok,
    Err(String),
    Records(Vec<(u32, u64)>),
    State { last: Option<(u64, u64)>, purged: Option<(u64, u64)>, vote: Option<(u64, u64, bool)>, committed: Option<(u64, u64)>, entries: Vec<(u64, u64, u64)> },
    Panic(String),
}

pub fn record(seq: u64, len: u32) -> Vec<u8> {
    let mut v = Vec::with_capacity(len as usize);
    let mut x = engine::splitmix(seq ^ 0xC21);
    for i in 0..len as usize {
        if i % 8 == 0 {
            x = engine::splitmix(x);
        }
        v.push((x >> ((i % 8) * 8)) as u8);
    }
    v
}

pub fn hash(b: &[u8]) -> u64 {
    let mut h = 0xcbf2_9ce4_8422_2325u64 ^ b.len() as u64;
    for x in b {
        h ^= *x as u64;
        h = h.wrapping_mul(0x100_0000_01b3);
    }
    engine::splitmix(h)
}

pub fn block_on<T: 'static>(f: impl std::future::Future<Output = T> + 'static) -> T {
    let slot = std::rc::Rc::new(std::cell::RefCell::new(None));
    let s2 = slot.clone();
    tokio::rt::spawn_named("main", async move {
        *s2.borrow_mut() = Some(f.await);
    });
    while slot.borrow().is_none() {
        assert_ne!(tokio::rt::step(), tokio::rt::StepResult::Deadlock);
    }
    let v = slot.borrow_mut().take().unwrap();
    v
}

fn emit(r: &XResp) {
    let out = std::io::stdout();
    let mut l = out.lock();
    let _ = writeln!(l, "@@ {}", serde_json::to_string(r).unwrap());
    let _ = l.flush();
}

fn main_exec() -> i32 {
    std::env::set_var("WALRUS_QUIET", "1");
    std::panic::set_hook(Box::new(|info| {
        emit(&XResp::Panic(format!("{}", info).replace('\n', " | ")));
        unsafe { libc::_exit(101) }
    }));
    let base = std::path::PathBuf::from(std::env::var("WSTORE_BASE").expect("WSTORE_BASE"));
    let flush_ms: u64 = std::env::var("WSTORE_FLUSH_MS").ok().and_then(|s| s.parse().ok()).unwrap_or(100);
    let mut w: Option<Arc<wal::WriteAheadLog>> = None;
    let mut store: Option<openraft::storage::WalLogStore> = None;
    let stdin = std::io::stdin();
    for line in stdin.lock().lines() {
        let Ok(line) = line else { break };
        if line.trim().is_empty() {
            continue;
        }
        if line.trim() == "\"ExitNow\"" {
            unsafe { libc::_exit(0) }
        }
        let op: XOp = match serde_json::from_str(&line) {
            Ok(o) => o,
            Err(e) => {
                emit(&XResp::Err(format!("bad op {e}")));
                continue;
            }
        };
        let r = match op {
            XOp::OpenWal => {
                let p = base.join("peers.wal");
                match block_on(async move { wal::WriteAheadLog::new(p, 100, std::time::Duration::from_millis(flush_ms)).await }) {
                    Ok(x) => {
                        w = Some(Arc::new(x));
                        XResp::Ok
                    }
                    Err(e) => XResp::Err(e.to_string()),
                }
            }
            XOp::WalAppend { seq, len } => {
                let x = w.clone().unwrap();
                match block_on(async move { x.append(bytes::Bytes::from(record(seq, len))).await }) {
                    Ok(_) => XResp::Ok,
                    Err(e) => XResp::Err(e.to_string()),
                }
            }
            XOp::WalReadAll => {
                let x = w.clone().unwrap();
                match block_on(async move { x.read_all().await }) {
                    Ok(v) => XResp::Records(v.iter().map(|b| (b.len() as u32, hash(b))).collect()),
                    Err(e) => XResp::Err(e.to_string()),
                }
            }
            XOp::OpenStore => {
                let p = base.join("openraft_log");
                let r = block_on(async move {
                    let wl = Arc::new(wal::WriteAheadLog::new(p, 100, std::time::Duration::from_millis(flush_ms)).await?);
                    openraft::storage::new_wal_log_store(wl).await
                });
                match r {
                    Ok(s) => {
                        store = Some(s);
                        XResp::Ok
                    }
                    Err(e) => XResp::Err(e.to_string()),
                }
            }
            XOp::Append { from, n, term } => {
                let mut s = store.take().unwrap();
                let (s2, r) = block_on(async move {
                    let entries: Vec<Entry<AppTypeConfig>> = (from..from + n).map(|i| Entry { log_id: LogId::new(term, 1, i), payload: EntryPayload::Normal(AppEntry(record(i ^ (term << 40), 24))) }).collect();
                    let (cb, _flag) = IOFlushed::new();
                    let r = s.append(entries, cb).await;
                    (s, r)
                });
                store = Some(s2);
                match r {
                    Ok(()) => XResp::Ok,
                    Err(e) => XResp::Err(e.to_string()),
                }
            }
            XOp::Truncate { index, term } => {
                let mut s = store.take().unwrap();
                let (s2, r) = block_on(async move {
                    let r = s.truncate(LogId::new(term, 1, index)).await;
                    (s, r)
                });
                store = Some(s2);
                match r {
                    Ok(()) => XResp::Ok,
                    Err(e) => XResp::Err(e.to_string()),
                }
            }
            XOp::Purge { index, term } => {
                let mut s = store.take().unwrap();
                let (s2, r) = block_on(async move {
                    let r = s.purge(LogId::new(term, 1, index)).await;
                    (s, r)
                });
                store = Some(s2);
                match r {
                    Ok(()) => XResp::Ok,
                    Err(e) => XResp::Err(e.to_string()),
                }
            }
            XOp::SaveVote { term, node, committed } => {
                let mut s = store.take().unwrap();
                let (s2, r) = block_on(async move {
                    let r = s.save_vote(&Vote { leader_id: LeaderId { term, node_id: node }, committed }).await;
                    (s, r)
                });
                store = Some(s2);
                match r {
                    Ok(()) => XResp::Ok,
                    Err(e) => XResp::Err(e.to_string()),
                }
            }
            XOp::SaveCommitted { index, term } => {
                let mut s = store.take().unwrap();
                let (s2, r) = block_on(async move {
                    let r = s.save_committed(index.map(|i| LogId::new(term, 1, i))).await;
                    (s, r)
                });
                store = Some(s2);
                match r {
                    Ok(()) => XResp::Ok,
                    Err(e) => XResp::Err(e.to_string()),
                }
            }
            XOp::State => {
                let mut s = store.take().unwrap();
                let (s2, r) = block_on(async move {
                    let st = s.get_log_state().await;
                    let vote = s.read_vote().await;
                    let com = s.read_committed().await;
                    let ents = s.try_get_log_entries(0..u64::MAX).await;
                    (s, (st, vote, com, ents))
                });
                store = Some(s2);
                match r {
                    (Ok(st), Ok(vote), Ok(com), Ok(ents)) => XResp::State {
                        last: st.last_log_id.map(|l| (l.index, l.leader_id.term)),
                        purged: st.last_purged_log_id.map(|l| (l.index, l.leader_id.term)),
                        vote: vote.map(|v| (v.leader_id.term, v.leader_id.node_id, v.committed)),
                        committed: com.map(|l| (l.index, l.leader_id.term)),
                        entries: ents
                            .iter()
                            .map(|e| {
                                (
                                    e.log_id.index,
                                    e.log_id.leader_id.term,
                                    match &e.payload {
                                        EntryPayload::Normal(a) => hash(&a.0),
                                        _ => 0,
                                    },
                                )
                            })
                            .collect(),
                    },
                    other => XResp::Err(format!("state: {:?}", (other.0.is_ok(), other.1.is_ok(), other.2.is_ok(), other.3.is_ok()))),
                }
            }
        };
        emit(&r);
    }
    unsafe { libc::_exit(0) }
}

fn main() {
    let args: Vec<String> = std::env::args().collect();
    match args.get(1).map(|s| s.as_str()) {
        Some("exec") => std::process::exit(main_exec()),
        Some("run") => {
            let mut tier = match std::env::var("VERIF_TIER").ok().as_deref() {
                Some("thorough") => engine::Tier::Thorough,
                _ => engine::Tier::Quick,
            };
            let mut i = 3;
            while i < args.len() {
                if args[i] == "--tier" && i + 1 < args.len() {
                    tier = if args[i + 1] == "thorough" { engine::Tier::Thorough } else { engine::Tier::Quick };
                    i += 1;
                }
                i += 1;
            }
            let seed: u64 = std::env::var("VERIF_SEED").ok().and_then(|s| s.parse().ok()).unwrap_or(0);
            if args.get(2).map(|s| s.as_str()) == Some("C20") {
                std::process::exit(snap::run_c20b(tier, seed));
            }
            std::process::exit(drv::run_c21(tier, seed));
        }
        Some("replay") => {
            let s = std::fs::read_to_string(&args[2]).expect("read replay file");
            let body: serde_json::Value = serde_json::from_str(&s).expect("parse");
            if body.get("kind").and_then(|k| k.as_str()) == Some("c20-adapter") {
                match snap::replay(&body) {
                    Ok(Some(m)) => {
                        println!("VIOLATION property=C20 replay={}", args[2]);
                        println!("  {}", m);
                        std::process::exit(1)
                    }
                    Ok(None) => {
                        println!("OK property=C20 replay passes");
                        std::process::exit(0)
                    }
                    Err(e) => {
                        println!("INCONCLUSIVE property=C20 {}", e);
                        std::process::exit(2)
                    }
                }
            }
            match drv::replay(&body) {
                Ok(Some(m)) => {
                    println!("VIOLATION property=C21 replay={}", args[2]);
                    println!("  {}", m);
                    std::process::exit(1)
                }
                Ok(None) => {
                    println!("OK property=C21 replay passes");
                    std::process::exit(0)
                }
                Err(e) => {
                    println!("INCONCLUSIVE property=C21 {}", e);
                    std::process::exit(2)
                }
            }
        }
        _ => {
            eprintln!("usage: wstore exec | run C21 [--tier t] | replay <file>");
            std::process::exit(2)
        }
    }
}

fn main() {
    println!("cargo::rustc-check-cfg=cfg(walrus_verif)");
}

//! E2 x E3: process crash in the middle of *concurrent* producers (C07).
//!
//! A case = sequential prefill (appends only), 2-3 producer thread programs executed under the H2
//! token scheduler with a generated schedule, and crash points inside the concurrent phase
//! (die before the k-th foreground I/O event, or tear the k-th block write). The executor logs
//! every invocation and every return with one write(2), so the log of the killed process tells
//! which appends had returned success and which were in flight. A fresh process then reopens the
//! directory and drains every topic.
//!
//! Oracle (C07): recovery is clean; every topic yields its prefill entries in order, then - in an
//! order that respects every thread's program order - every entry whose append had returned
//! success, at most the entries of operations in flight at the crash, and nothing else (in
//! particular no entry of an append that had returned an error).
use super::conc::*;
use super::crash::{plan_for, read_trace, Event};
use super::*;
use crate::proto::*;
use proptest::prelude::*;
use serde::{Deserialize, Serialize};
use std::collections::HashMap;

#[derive(Clone, Debug, Serialize, Deserialize, PartialEq, Eq, Hash)]
pub struct CcCase {
    pub conc: ConcCase,
    /// seeds the choice of crash points inside the concurrent phase
    pub point: u16,
    pub torn: u16,
}

pub fn cc_strategy() -> BoxedStrategy<CcCase> {
    cc_strategy_with(false)
}

pub fn cc_strategy_with(consumers: bool) -> BoxedStrategy<CcCase> {
    let pre_mix = Mix { append: 30, batch: 10, batch_many: 0, read_next: 0, batch_read: 0, max_batch: 4, ..Mix::consuming() };
    (
        cfg_strategy(3, mode_strategy()),
        proptest::collection::vec(op_strategy(&pre_mix, SizeProfile::Tiny), 0..6),
        proptest::collection::vec(proptest::option::weighted(0.3, 0u16..3000), 3),
        proptest::collection::vec(proptest::collection::vec(top_strategy(!consumers), 1..=4), 2..=3),
        proptest::collection::vec((0u8..4, 1u8..12), 0..40),
        any::<u16>(),
        any::<u16>(),
    )
        .prop_map(move |(cfg, pre, room, threads, sched, point, torn)| CcCase { conc: ConcCase { cfg, pre, room, threads, sched, producers_only: !consumers, drain: vec![] }, point, torn })
        .boxed()
}

/// sequential prefill + fillers; Err = (inconclusive?, message)
fn prefill(run: &mut Run, case: &ConcCase) -> Result<(), (bool, String)> {
    let nt = run.model.topics.len();
    for aop in &case.pre {
        for s in run.expand(aop) {
            if let Err(v) = run.apply(&s) {
                let inc = run.out.inconclusive.is_some() || run.out.died.is_some();
                return Err((inc, format!("prefill {:?}: {}", v.oracle, v.msg)));
            }
        }
    }
    for t in 0..nt {
        if let Some(Some(room)) = case.room.get(t) {
            let tm = &run.model.topics[t];
            let (cur, limit) = if tm.has_writer { (tm.cur, tm.limit) } else { (0, BLOCK) };
            let free = limit.saturating_sub(cur);
            // only topics that already have a writer: a topic the prefill left untouched gets
            // its first block inside the concurrent phase
            if tm.has_writer && free > HDR + *room as u64 + 8 {
                let len = free - HDR - *room as u64;
                if let Err(v) = run.apply(&Step::Do(Op::Append { inst: 0, t: t as u32, seq: 500_000 + t as u64, len })) {
                    let inc = run.out.inconclusive.is_some() || run.out.died.is_some();
                    return Err((inc, format!("filler {:?}: {}", v.oracle, v.msg)));
                }
            }
        }
    }
    Ok(())
}

pub struct Counted {
    pub e0: u64,
    pub e1: u64,
    pub events: Vec<Event>,
    pub results: Vec<ConcRes>,
}

fn counting(case: &ConcCase, schedule: &[u8], base: &RunOpts) -> Result<Counted, (bool, String)> {
    let mut run = Run::new_lazy(&case.cfg, base.clone());
    let trace_path = run.scratch.path.join("h1-trace.jsonl");
    run.opts.spawn.env.push(("WVERIF_PLAN".into(), format!("trace={}", trace_path.to_string_lossy())));
    match run.start() {
        Ok(Resp::Ok) => {}
        Ok(o) => return Err((true, format!("open in the counting run: {}", o.short()))),
        Err(e) => return Err((true, e)),
    }
    prefill(&mut run, case)?;
    let nt = run.model.topics.len();
    let e0 = run.io_count().ok_or((true, "no io count".to_string()))?;
    let (threads, _) = concrete_threads(case, nt, 1_000);
    let resp = run.child.as_mut().unwrap().call(&Op::Conc { inst: 0, threads, schedule: schedule.to_vec() });
    let results = match resp {
        Resp::Conc { results, .. } => results,
        Resp::Timeout => return Err((true, "watchdog in the counting run".into())),
        other => return Err((false, format!("the concurrent phase did not complete without any crash plan: {}", other.short()))),
    };
    let e1 = run.io_count().ok_or((true, "no io count".to_string()))?;
    let events = read_trace(&trace_path);
    if let Some(c) = run.child.take() {
        let _ = c.exit(true);
    }
    let _ = run.finish();
    Ok(Counted { e0, e1, events, results })
}

#[derive(Default)]
pub struct CcObs {
    pub died_in_conc: bool,
    pub completed: bool,
    /// (thread, idx) of operations that returned success / an error / were started only
    pub acked: Vec<(usize, usize)>,
    pub erred: Vec<(usize, usize)>,
    pub inflight: Vec<(usize, usize)>,
    /// (len, hash) of the entries every acknowledged consuming read returned
    pub returned: Vec<((usize, usize), Vec<(u64, u64)>)>,
    pub recovered: Option<Result<Vec<Vec<Ent>>, String>>,
    pub prefill_model: Option<InstModel>,
    pub harness: Option<String>,
    pub unexpected: Option<String>,
    pub trace: Vec<String>,
}

pub fn crash_conc_run(case: &ConcCase, schedule: &[u8], plan: &str, base: &RunOpts, drain_batch: bool) -> CcObs {
    let mut obs = CcObs::default();
    let mut run = Run::new_lazy(&case.cfg, base.clone());
    let acklog = run.scratch.path.join("conc-acklog.txt");
    run.opts.spawn.env.push(("WVERIF_PLAN".into(), plan.to_string()));
    run.opts.spawn.env.push(("WVERIF_CONC_ACKLOG".into(), acklog.to_string_lossy().to_string()));
    match run.start() {
        Ok(Resp::Ok) => {}
        Ok(o) => {
            obs.harness = Some(format!("open before the prefill: {}", o.short()));
            return obs;
        }
        Err(e) => {
            obs.harness = Some(e);
            return obs;
        }
    }
    if let Err((_, m)) = prefill(&mut run, case) {
        obs.harness = Some(format!("the prefill did not repeat: {}", m));
        let _ = run.finish();
        return obs;
    }
    obs.prefill_model = Some(run.model.clone());
    let nt = run.model.topics.len();
    let (threads, _) = concrete_threads(case, nt, 1_000);
    let resp = run.child.as_mut().unwrap().call(&Op::Conc { inst: 0, threads: threads.clone(), schedule: schedule.to_vec() });
    match resp {
        Resp::Died(m) => {
            obs.died_in_conc = true;
            if !m.starts_with("exit=137") {
                obs.unexpected = Some(m);
            }
            run.child = None;
        }
        Resp::Conc { .. } => {
            // the crash point lies behind the phase: killed right after it
            obs.completed = true;
            if let Some(c) = run.child.take() {
                let _ = c.exit(true);
            }
        }
        Resp::Timeout => {
            obs.harness = Some("watchdog during the concurrent phase".into());
            let _ = run.finish();
            return obs;
        }
        Resp::Panic(m) => {
            obs.died_in_conc = true;
            obs.unexpected = Some(format!("panic: {}", m));
            run.child = None;
        }
        other => {
            obs.died_in_conc = true;
            obs.unexpected = Some(other.short());
            run.child = None;
        }
    }
    // what had returned, what was in flight
    let log = std::fs::read_to_string(&acklog).unwrap_or_default();
    let mut started: Vec<(usize, usize)> = Vec::new();
    for l in log.lines() {
        let p: Vec<&str> = l.split_whitespace().collect();
        if p.len() >= 3 {
            if let (Ok(t), Ok(i)) = (p[1].parse::<usize>(), p[2].parse::<usize>()) {
                match (p[0], p.get(3).copied()) {
                    ("s", _) => started.push((t, i)),
                    ("a", Some("ok")) => {
                        obs.acked.push((t, i));
                        if let Some(list) = p.get(4) {
                            let v: Vec<(u64, u64)> = list.split(',').filter_map(|x| x.split_once(':')).filter_map(|(a, b)| Some((a.parse().ok()?, b.parse().ok()?))).collect();
                            obs.returned.push(((t, i), v));
                        }
                    }
                    ("a", Some("err")) => obs.erred.push((t, i)),
                    _ => {}
                }
            }
        }
    }
    for s in started {
        if !obs.acked.contains(&s) && !obs.erred.contains(&s) {
            obs.inflight.push(s);
        }
    }
    // ---- recovery in a fresh process without plan
    run.opts.spawn.env.retain(|(k, _)| k != "WVERIF_PLAN" && k != "WVERIF_CONC_ACKLOG");
    run.child = None;
    match run.start() {
        Err(e) => obs.harness = Some(e),
        Ok(Resp::Ok) => obs.recovered = Some(run.drain_collect(drain_batch)),
        Ok(Resp::Timeout) => obs.recovered = Some(Err("reopening after the crash hangs (watchdog)".into())),
        Ok(other) => obs.recovered = Some(Err(format!("reopening after the crash failed: {}", other.short()))),
    }
    obs.trace = run.out.trace.clone();
    let _ = run.finish();
    obs
}

fn entries_of(op: &Op, cache: &mut HashMap<(u32, u64, u64), u64>) -> (u32, Vec<EntId>) {
    match op {
        Op::Append { t, seq, len, .. } => (*t, vec![ent_id(*t, *seq, *len, cache)]),
        Op::Batch { t, seq0, lens, .. } => (*t, lens.iter().enumerate().map(|(i, l)| ent_id(*t, seq0 + i as u64, *l, cache)).collect()),
        _ => (0, vec![]),
    }
}

pub fn judge_cc(case: &ConcCase, obs: &CcObs) -> Result<(), String> {
    if let Some(m) = &obs.unexpected {
        return Err(format!("the workload process ended on its own (not at the planned crash point): {}", m));
    }
    let rec = match &obs.recovered {
        Some(Ok(r)) => r,
        Some(Err(m)) => return Err(format!("recovery after the crash is not clean: {}", m)),
        None => return Ok(()),
    };
    let model = obs.prefill_model.as_ref().unwrap();
    let nt = model.topics.len();
    let (threads, _) = concrete_threads(case, nt, 1_000);
    let mut cache = HashMap::new();
    for (ti, d) in rec.iter().enumerate() {
        let t = ti as u32;
        let pre = &model.topics[ti].appended;
        if d.len() < pre.len() || !pre.iter().zip(d.iter()).all(|(id, e)| same(e, id)) {
            let firstbad = pre.iter().zip(d.iter()).position(|(id, e)| !same(e, id)).unwrap_or(d.len());
            return Err(format!(
                "topic {}: the {} entries appended before the concurrent phase are not all delivered first after the crash (delivered {}, first difference at #{})",
                t,
                pre.len(),
                d.len(),
                firstbad
            ));
        }
        let rest = &d[pre.len()..];
        // who may / must appear
        #[derive(Clone)]
        struct Exp {
            id: EntId,
            thread: usize,
            ord: usize,
            must: bool,
            seen: bool,
            what: String,
        }
        let mut exp: Vec<Exp> = Vec::new();
        let mut forbidden: Vec<(EntId, String)> = Vec::new();
        for (th, prog) in threads.iter().enumerate() {
            let mut ord = 0usize;
            for (i, op) in prog.iter().enumerate() {
                let (ot, ids) = entries_of(op, &mut cache);
                if ot != t {
                    continue;
                }
                let key = (th, i);
                let (may, must) = if obs.acked.contains(&key) { (true, true) } else if obs.inflight.contains(&key) { (true, false) } else { (false, false) };
                for (j, id) in ids.into_iter().enumerate() {
                    let what = format!("T{}#{}[{}]", th, i, j);
                    if may {
                        exp.push(Exp { id, thread: th, ord, must, seen: false, what });
                        ord += 1;
                    } else {
                        let why = if obs.erred.contains(&key) { "had returned an error" } else { "was never started" };
                        forbidden.push((id, format!("{} ({})", what, why)));
                    }
                }
            }
        }
        let mut last_ord: HashMap<usize, usize> = HashMap::new();
        for (pos, e) in rest.iter().enumerate() {
            if let Some(x) = exp.iter_mut().find(|x| !x.seen && same(e, &x.id)) {
                x.seen = true;
                if let Some(lo) = last_ord.get(&x.thread) {
                    if x.ord < *lo {
                        return Err(format!("topic {}: after the crash {} is delivered behind a later entry of the same thread (position {} after the prefill entries)", t, x.what, pos));
                    }
                }
                last_ord.insert(x.thread, x.ord);
            } else if let Some((_, w)) = forbidden.iter().find(|(id, _)| same(e, id)) {
                return Err(format!("topic {}: after the crash the topic yields the entry of {} - an operation that {}", t, w.split(' ').next().unwrap_or(""), w.split_once('(').map(|x| x.1.trim_end_matches(')')).unwrap_or("")));
            } else if exp.iter().any(|x| same(e, &x.id)) {
                return Err(format!("topic {}: after the crash an entry is delivered twice (position {} after the prefill entries, len {})", t, pos, e.len));
            } else {
                return Err(format!("topic {}: after the crash the topic yields an entry nobody appended to it (position {} after the prefill entries, len {}, head {})", t, pos, e.len, e.head));
            }
        }
        let missing: Vec<&Exp> = exp.iter().filter(|x| x.must && !x.seen).collect();
        if !missing.is_empty() {
            return Err(format!(
                "topic {}: {} append(s) that had returned success before the crash are not delivered after it: {:?} (topic yields {} entries: {} from before the concurrent phase + {})",
                t,
                missing.len(),
                missing.iter().take(6).map(|x| x.what.clone()).collect::<Vec<_>>(),
                d.len(),
                pre.len(),
                rest.len()
            ));
        }
    }
    Ok(())
}

/// C09 with concurrent consumers. Strict: nothing a returned read delivered comes again, nothing
/// is skipped beyond what the reads in flight at the crash may have taken (one entry per
/// read_next, anything for a batch read). AtLeastOnce: nothing is skipped (same allowance).
pub fn judge_cc_reads(case: &ConcCase, obs: &CcObs) -> Result<(), String> {
    if let Some(m) = &obs.unexpected {
        return Err(format!("the workload process ended on its own (not at the planned crash point): {}", m));
    }
    let rec = match &obs.recovered {
        Some(Ok(r)) => r,
        Some(Err(m)) => return Err(format!("recovery after the crash is not clean: {}", m)),
        None => return Ok(()),
    };
    let strict = matches!(case.cfg.mode, Mode::Strict);
    let model = obs.prefill_model.as_ref().unwrap();
    let nt = model.topics.len();
    let (threads, _) = concrete_threads(case, nt, 1_000);
    let mut cache = HashMap::new();
    for (ti, d) in rec.iter().enumerate() {
        let t = ti as u32;
        struct Exp {
            id: EntId,
            thread: usize,
            ord: usize,
            must: bool,
            seen: bool,
            consumed: bool,
            what: String,
        }
        let mut exp: Vec<Exp> = Vec::new();
        for (i, id) in model.topics[ti].appended.iter().enumerate() {
            exp.push(Exp { id: id.clone(), thread: usize::MAX, ord: i, must: true, seen: false, consumed: false, what: format!("prefill#{}", i) });
        }
        let mut forbidden: Vec<(EntId, String)> = Vec::new();
        let mut inflight_rn = 0usize;
        let mut inflight_batch = false;
        for (th, prog) in threads.iter().enumerate() {
            let mut ord = 0usize;
            for (i, op) in prog.iter().enumerate() {
                let key = (th, i);
                match op {
                    Op::ReadNext { t: ot, .. } if *ot == t && obs.inflight.contains(&key) => inflight_rn += 1,
                    Op::BatchRead { t: ot, .. } if *ot == t && obs.inflight.contains(&key) => inflight_batch = true,
                    _ => {}
                }
                let (ot, ids) = entries_of(op, &mut cache);
                if ot != t || ids.is_empty() {
                    continue;
                }
                let (may, must) = if obs.acked.contains(&key) { (true, true) } else if obs.inflight.contains(&key) { (true, false) } else { (false, false) };
                for (j, id) in ids.into_iter().enumerate() {
                    let what = format!("T{}#{}[{}]", th, i, j);
                    if may {
                        exp.push(Exp { id, thread: th, ord, must, seen: false, consumed: false, what });
                        ord += 1;
                    } else {
                        forbidden.push((id, what));
                    }
                }
            }
        }
        // what returned reads of this topic delivered before the crash
        for (key, list) in &obs.returned {
            let Some(op) = threads.get(key.0).and_then(|p| p.get(key.1)) else { continue };
            let on_t = matches!(op, Op::ReadNext { t: ot, .. } | Op::BatchRead { t: ot, .. } if *ot == t);
            if !on_t {
                continue;
            }
            for (len, hash) in list {
                if let Some(x) = exp.iter_mut().find(|x| !x.consumed && x.id.len == *len && x.id.hash == *hash) {
                    x.consumed = true;
                }
            }
        }
        let mut last_ord: HashMap<usize, usize> = HashMap::new();
        let mut conc_seen = false;
        for (pos, e) in d.iter().enumerate() {
            // equal payloads (several empty entries) are interchangeable: a delivered copy is
            // matched to a copy no returned read had delivered, if there is one
            let pick = exp.iter().position(|x| !x.seen && !x.consumed && same(e, &x.id)).or_else(|| exp.iter().position(|x| !x.seen && same(e, &x.id)));
            let ambiguous = pick.map(|i| exp.iter().filter(|y| y.id.len == exp[i].id.len && y.id.hash == exp[i].id.hash).count() > 1).unwrap_or(false);
            if let Some(x) = pick.map(|i| &mut exp[i]) {
                x.seen = true;
                if ambiguous {
                    // takes part in the exactly-once accounting only, not in order judgements
                    if strict && x.consumed {
                        return Err(format!("topic {}: StrictlyAtOnce - every copy of the payload of {} had been returned by consuming reads that completed before the crash, and one is delivered again after it (position {} of {})", t, x.what, pos, d.len()));
                    }
                    continue;
                }
                if x.thread == usize::MAX {
                    if conc_seen {
                        return Err(format!("topic {}: after the crash {} is delivered behind an entry appended later (position {})", t, x.what, pos));
                    }
                } else {
                    conc_seen = true;
                }
                if let Some(lo) = last_ord.get(&x.thread) {
                    if x.ord < *lo {
                        return Err(format!("topic {}: after the crash {} is delivered behind a later entry of the same producer (position {})", t, x.what, pos));
                    }
                }
                last_ord.insert(x.thread, x.ord);
                if strict && x.consumed {
                    return Err(format!("topic {}: StrictlyAtOnce - {} had been returned by a consuming read that completed before the crash and is delivered again after it (position {} of {})", t, x.what, pos, d.len()));
                }
            } else if let Some((_, w)) = forbidden.iter().find(|(id, _)| same(e, id)) {
                return Err(format!("topic {}: after the crash the topic yields the entry of {} - an operation that had failed or never started", t, w));
            } else if exp.iter().any(|x| same(e, &x.id)) {
                return Err(format!("topic {}: after the crash an entry is delivered twice (position {}, len {})", t, pos, e.len));
            } else {
                return Err(format!("topic {}: after the crash the topic yields an entry nobody appended to it (position {}, len {}, head {})", t, pos, e.len, e.head));
            }
        }
        let missing: Vec<&Exp> = exp.iter().filter(|x| x.must && !x.seen && !x.consumed).collect();
        if !inflight_batch && missing.len() > inflight_rn {
            return Err(format!(
                "topic {}: {} acknowledged entries were neither returned by a read before the crash nor delivered after it ({} read_next in flight at the crash, no batch read): {:?}",
                t,
                missing.len(),
                inflight_rn,
                missing.iter().take(6).map(|x| x.what.clone()).collect::<Vec<_>>()
            ));
        }
    }
    Ok(())
}

fn mix(mut z: u64) -> u64 {
    z = z.wrapping_add(0x9E37_79B9_7F4A_7C15);
    z = (z ^ (z >> 30)).wrapping_mul(0xBF58_476D_1CE4_E5B9);
    z = (z ^ (z >> 27)).wrapping_mul(0x94D0_49BB_1331_11EB);
    z ^ (z >> 31)
}

pub fn cc_case(prop: &str, c: &CcCase, base: &RunOpts, max_points: usize) -> CaseReport {
    let mut rep = CaseReport::default();
    let schedule = expand_sched(&c.conc.sched);
    let cnt = match counting(&c.conc, &schedule, base) {
        Ok(x) => x,
        Err((true, m)) => {
            rep.inconclusive = Some(m);
            return rep;
        }
        Err((false, m)) => {
            // a failure without any crash: C05 / C01 business; not judged here
            rep.features.insert("counting_run_diverged".into());
            rep.sample = Some(json!({"diverged": m}));
            return rep;
        }
    };
    let evs: Vec<&Event> = cnt.events.iter().filter(|e| e.n > cnt.e0 && e.n <= cnt.e1).collect();
    if evs.is_empty() {
        rep.features.insert("no_io_in_concurrent_phase".into());
        rep.sample = Some(json!({"threads": c.conc.threads.len(), "events": 0}));
        return rep;
    }
    // crash points: spread over the phase; block writes also torn
    let mut plans: Vec<(String, String)> = Vec::new();
    let mut z = c.point as u64 ^ 0xCC07;
    for j in 0..max_points {
        z = mix(z.wrapping_add(j as u64));
        let e = evs[(z % evs.len() as u64) as usize];
        let torn = if e.site == "block_write" && e.len > 1 && (z >> 20) % 3 != 0 {
            // tear inside the header, right behind it, or anywhere in the payload
            let n = match (z >> 24) % 4 {
                0 => 1 + (z >> 32) % HDR.min(e.len - 1).max(1),
                1 => HDR.min(e.len - 1),
                _ => 1 + (((c.torn as u64 ^ (z >> 32)) & 0xffff) * (e.len - 1) >> 16),
            };
            Some(n.min(e.len - 1).max(1))
        } else {
            None
        };
        let p = plan_for(e.n, torn);
        if !plans.iter().any(|(q, _)| *q == p) {
            plans.push((p, e.site.clone()));
        }
    }
    let mut nontrivial = false;
    for (k, (plan, site)) in plans.iter().enumerate() {
        let obs = crash_conc_run(&c.conc, &schedule, plan, base, (c.point as usize + k) % 2 == 0);
        if let Some(h) = &obs.harness {
            rep.inconclusive = Some(h.clone());
            continue;
        }
        rep.features.insert(format!("crash_at_{}", site));
        if plan.starts_with("torn") {
            rep.features.insert("torn_block_write".into());
        }
        if obs.died_in_conc {
            rep.features.insert("died_in_concurrent_phase".into());
        }
        if !obs.acked.is_empty() && !obs.inflight.is_empty() {
            rep.features.insert("acked_and_inflight_at_crash".into());
            let at: BTreeSet<usize> = obs.acked.iter().map(|x| x.0).collect();
            if obs.inflight.iter().any(|x| at.iter().any(|a| *a != x.0)) {
                rep.features.insert("other_thread_acked_while_inflight".into());
                nontrivial = true;
            }
        }
        if obs.inflight.len() >= 2 {
            rep.features.insert("two_operations_in_flight".into());
        }
        let verdict = if c.conc.producers_only { judge_cc(&c.conc, &obs) } else { judge_cc_reads(&c.conc, &obs) };
        if !obs.returned.is_empty() && !obs.inflight.is_empty() {
            rep.features.insert("reads_returned_and_operation_inflight".into());
            if !c.conc.producers_only {
                nontrivial = true;
            }
        }
        if let Err(msg) = verdict {
            let body = json!({
                "kind": "crashconc",
                "property": prop,
                "case": c.conc,
                "schedule": schedule,
                "plan": plan,
                "site": site,
                "acked": obs.acked,
                "inflight": obs.inflight,
                "erred": obs.erred,
                "trace": obs.trace,
                "opts": opts_json(base),
            });
            rep.violation = Some((format!("[{} concurrent] crash plan {} ({}): {}", prop, plan, site, msg), body));
            break;
        }
    }
    rep.nontrivial = nontrivial && rep.inconclusive.is_none();
    rep.sample = Some(json!({"threads": c.conc.threads.iter().map(|p| p.len()).collect::<Vec<_>>(), "events_in_phase": evs.len(), "plans": plans.iter().map(|p| p.0.clone()).collect::<Vec<_>>(), "fd": c.conc.cfg.fd}));
    rep
}

pub fn replay(body: &Value) -> Result<Option<String>, String> {
    let case: ConcCase = serde_json::from_value(body.get("case").cloned().ok_or("no case")?).map_err(|e| e.to_string())?;
    let schedule: Vec<u8> = serde_json::from_value(body.get("schedule").cloned().ok_or("no schedule")?).map_err(|e| e.to_string())?;
    let plan = body.get("plan").and_then(|p| p.as_str()).ok_or("no plan")?.to_string();
    let opts = opts_from_json(body.get("opts").unwrap_or(&Value::Null));
    let obs = crash_conc_run(&case, &schedule, &plan, &opts, true);
    if let Some(h) = obs.harness {
        return Err(h);
    }
    if !case.producers_only {
        return Ok(judge_cc_reads(&case, &obs).err());
    }
    Ok(judge_cc(&case, &obs).err())
}

pub fn search_consumers(ctx: &Ctx, cases: usize, points: usize) {
    let prop = ctx.prop.clone();
    let mut base = RunOpts::default();
    base.exclude = exclusions_for(&ctx.prop);
    let s = Search {
        name: "concurrent-consumers".to_string(),
        strategy: Box::new(|| {
            // a third of the cases: readers polling a topic whose block is sealed under them
            prop_oneof![
                2 => cc_strategy_with(true),
                1 => (rotation_strategy(), any::<u16>(), any::<u16>()).prop_map(|(conc, point, torn)| CcCase { conc, point, torn }),
            ]
            .boxed()
        }),
        run: Box::new(move |c: &CcCase| cc_case(&prop, c, &base, points)),
        cases,
        workers: cores(),
        max_shrink_iters: 60,
        shrink_secs: 300,
    };
    run_search(ctx, &s);
}

pub fn search(ctx: &Ctx, cases: usize, points: usize) {
    let prop = ctx.prop.clone();
    let mut base = RunOpts::default();
    base.exclude = exclusions_for(&ctx.prop);
    let s = Search {
        name: "concurrent-producers".to_string(),
        strategy: Box::new(cc_strategy),
        run: Box::new(move |c: &CcCase| cc_case(&prop, c, &base, points)),
        cases,
        workers: cores(),
        max_shrink_iters: 60,
        shrink_secs: 300,
    };
    run_search(ctx, &s);
}

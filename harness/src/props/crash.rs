//! E2 crash engine (H1): C07 acknowledged appends survive a process crash at any I/O boundary,
//! C08 batch all-or-nothing under crashes, C09 consumer positions after a crash.
use super::*;
use crate::proto::*;
use proptest::prelude::*;
use serde::{Deserialize, Serialize};

#[derive(Clone, Debug, Serialize, Deserialize)]
pub struct Event {
    pub n: u64,
    pub site: String,
    #[serde(default)]
    pub len: u64,
    /// 1-based occurrence number of this site in the process (addressable by site rules)
    #[serde(default)]
    pub occ: u64,
    #[serde(default)]
    pub path: String,
}

pub struct CountRun {
    pub steps: Vec<Step>,
    /// (first event, last event) of every step; (0,0) = the step performs no I/O event
    pub ranges: Vec<(u64, u64)>,
    pub open_events: u64,
    pub events: Vec<Event>,
    pub features: BTreeSet<String>,
    pub excluded: std::collections::BTreeMap<String, u64>,
    pub diverged: Option<String>,
}

pub fn read_trace(path: &std::path::Path) -> Vec<Event> {
    let mut v = Vec::new();
    if let Ok(s) = std::fs::read_to_string(path) {
        for l in s.lines() {
            if let Ok(e) = serde_json::from_str::<Event>(l) {
                if e.n > 0 {
                    v.push(e);
                }
            }
        }
    }
    v.sort_by_key(|e| e.n);
    v
}

/// Execute the abstract case once without any fault, recording the concrete steps and the H1
/// foreground events each of them performs.
pub fn counting_run(case: &Case, base: &RunOpts) -> Result<CountRun, String> {
    let mut opts = base.clone();
    let mut run = Run::new_lazy(&case.cfg, opts.clone());
    let trace_path = run.scratch.path.join("h1-trace.jsonl");
    opts.spawn.env.push(("WVERIF_PLAN".into(), format!("trace={}", trace_path.to_string_lossy())));
    run.opts = opts;
    match run.start()? {
        Resp::Ok => {}
        other => return Err(format!("open failed in the counting run: {}", other.short())),
    }
    let open_events = run.io_count().ok_or("no io count (hooks build required)")?;
    let mut ranges = Vec::new();
    let mut last = open_events;
    let mut diverged = None;
    'outer: for aop in &case.ops {
        for s in run.expand(aop) {
            let r = run.apply(&s);
            let now = run.io_count().unwrap_or(last);
            ranges.push(if now > last { (last + 1, now) } else { (0, 0) });
            last = now;
            if let Err(v) = r {
                if run.out.inconclusive.is_some() {
                    return Err(run.out.inconclusive.clone().unwrap());
                }
                diverged = Some(format!("{:?}: {}", v.oracle, v.msg));
                break 'outer;
            }
        }
    }
    let steps = run.out.steps.clone();
    let features = run.out.features.clone();
    let excluded = run.out.excluded.clone();
    let events = read_trace(&trace_path);
    let _ = run.finish();
    Ok(CountRun { steps, ranges, open_events, events, features, excluded, diverged })
}

pub struct CrashObs {
    /// None = died while opening; Some(i) = died executing steps[i]; completed = never died
    pub died_step: Option<usize>,
    pub completed: bool,
    pub died_in_open: bool,
    pub model: InstModel,
    pub inflight: Option<Op>,
    /// Err = the reopened instance failed (message)
    pub recovered: Result<Vec<Vec<Ent>>, String>,
    pub trace: Vec<String>,
    pub harness_problem: Option<String>,
    /// the process ended in a way the plan does not explain (panic, signal)
    pub unexpected_death: Option<String>,
    pub diverged: Option<String>,
    /// per topic: a consuming batch read was issued (acknowledged or in flight)
    pub batch_consumed: Vec<bool>,
    /// per topic: model cursor after every acknowledged read_next(checkpoint=true) that returned
    /// an entry (AtLeastOnce persists on every persist_every-th such call)
    pub rn_positions: Vec<Vec<usize>>,
}

pub fn crash_run(cfg: &Cfg, steps: &[Step], plan: &str, base: &RunOpts, drain_batch: bool) -> CrashObs {
    let mut opts = base.clone();
    opts.spawn.env.push(("WVERIF_PLAN".into(), plan.to_string()));
    let mut run = Run::new_lazy(cfg, opts);
    let mut obs = CrashObs {
        died_step: None,
        completed: false,
        died_in_open: false,
        model: run.model.clone(),
        inflight: None,
        recovered: Err("not reached".into()),
        trace: Vec::new(),
        harness_problem: None,
        unexpected_death: None,
        diverged: None,
        batch_consumed: vec![false; run.model.topics.len()],
        rn_positions: vec![Vec::new(); run.model.topics.len()],
    };
    let check_death = |m: &str, obs: &mut CrashObs| {
        if !m.starts_with("exit=137") {
            obs.unexpected_death = Some(m.to_string());
        }
    };
    match run.start() {
        Err(e) => {
            obs.harness_problem = Some(e);
            return obs;
        }
        Ok(Resp::Ok) => {}
        Ok(Resp::Died(m)) => {
            obs.died_in_open = true;
            check_death(&m, &mut obs);
        }
        Ok(Resp::Timeout) => {
            obs.harness_problem = Some("open timed out".into());
            return obs;
        }
        Ok(other) => {
            obs.unexpected_death = Some(format!("open: {}", other.short()));
            obs.died_in_open = true;
        }
    }
    if !obs.died_in_open {
        let mut died = false;
        for (i, s) in steps.iter().enumerate() {
            let before = run.model.clone();
            if let Step::Do(Op::BatchRead { t, ck: true, off: None, .. }) = s {
                obs.batch_consumed[*t as usize] = true;
            }
            match run.apply(s) {
                Ok(()) => {
                    if let Step::Do(Op::ReadNext { t, ck: true, .. }) = s {
                        let c = run.model.topics[*t as usize].consumed_max();
                        if c > before.topics[*t as usize].consumed_max() {
                            obs.rn_positions[*t as usize].push(c);
                        }
                    }
                }
                Err(v) => {
                    if let Some(m) = run.out.died.clone() {
                        obs.died_step = Some(i);
                        obs.model = before;
                        if let Step::Do(op) = s {
                            obs.inflight = Some(op.clone());
                        }
                        check_death(&m, &mut obs);
                        died = true;
                    } else if run.out.inconclusive.is_some() {
                        obs.harness_problem = run.out.inconclusive.clone();
                        return obs;
                    } else if matches!(v.oracle, Oracle::Crash) {
                        // panic inside the engine without a planned death
                        obs.died_step = Some(i);
                        obs.model = before;
                        obs.unexpected_death = Some(v.msg.clone());
                        died = true;
                    } else {
                        obs.diverged = Some(format!("{:?}: {}", v.oracle, v.msg));
                        obs.trace = run.out.trace.clone();
                        let _ = run.finish();
                        return obs;
                    }
                    break;
                }
            }
        }
        if !died {
            // the crash point lies behind the workload: the process is killed right after its
            // last acknowledged operation
            obs.completed = true;
            obs.model = run.model.clone();
            if let Some(c) = run.child.take() {
                let _ = c.exit(true);
            }
        }
    }
    // ---- recovery in a fresh process without plan
    run.opts.spawn.env.retain(|(k, _)| k != "WVERIF_PLAN");
    run.child = None;
    match run.start() {
        Err(e) => {
            obs.harness_problem = Some(e);
        }
        Ok(Resp::Ok) => {
            obs.recovered = run.drain_collect(drain_batch);
        }
        Ok(Resp::Timeout) => {
            obs.recovered = Err("reopening after the crash hangs (watchdog)".into());
        }
        Ok(other) => {
            obs.recovered = Err(format!("reopening after the crash failed: {}", other.short()));
        }
    }
    obs.trace = run.out.trace.clone();
    let _ = run.finish();
    obs
}

pub fn inflight_entries(obs: &CrashObs, t: u32, cache: &mut std::collections::HashMap<(u32, u64, u64), u64>) -> Vec<EntId> {
    match &obs.inflight {
        Some(Op::Append { t: ot, seq, len, .. }) if *ot == t => vec![ent_id(t, *seq, *len, cache)],
        Some(Op::Batch { t: ot, seq0, lens, .. }) if *ot == t => lens.iter().enumerate().map(|(i, l)| ent_id(t, seq0 + i as u64, *l, cache)).collect(),
        _ => Vec::new(),
    }
}

fn eq_ent(e: &Ent, id: &EntId) -> bool {
    e.len == id.len && e.hash == id.hash
}

/// does `d` equal acked[c..] followed by an in-order subsequence (C07) / prefix / all-or-none of
/// `inflight`?  Returns the (c, taken) that explains it.
#[derive(Clone, Copy, PartialEq, Eq, Debug)]
pub enum Tail {
    Subsequence,
    AllOrNone,
}

pub fn explain(d: &[Ent], acked: &[EntId], inflight: &[EntId], c_lo: usize, c_hi: usize, tail: Tail) -> Option<(usize, usize)> {
    for c in c_lo..=c_hi.min(acked.len()) {
        let a = &acked[c..];
        if d.len() < a.len() {
            continue;
        }
        if !a.iter().zip(d.iter()).all(|(id, e)| eq_ent(e, id)) {
            continue;
        }
        let rest = &d[a.len()..];
        match tail {
            Tail::AllOrNone => {
                if rest.is_empty() {
                    return Some((c, 0));
                }
                if rest.len() == inflight.len() && rest.iter().zip(inflight.iter()).all(|(e, id)| eq_ent(e, id)) {
                    return Some((c, inflight.len()));
                }
            }
            Tail::Subsequence => {
                // greedy in-order match
                let mut j = 0usize;
                let mut ok = true;
                for e in rest {
                    while j < inflight.len() && !eq_ent(e, &inflight[j]) {
                        j += 1;
                    }
                    if j >= inflight.len() {
                        ok = false;
                        break;
                    }
                    j += 1;
                }
                if ok {
                    return Some((c, rest.len()));
                }
            }
        }
    }
    None
}

fn describe_list(m: &InstModel, t: u32, d: &[Ent]) -> String {
    let v: Vec<String> = d.iter().take(16).map(|e| m.describe(t, e)).collect();
    format!("{} entries: {:?}{}", d.len(), v, if d.len() > 16 { " …" } else { "" })
}

#[derive(Clone, Copy, Debug, PartialEq, Eq, Serialize, Deserialize)]
pub enum Judge {
    C07,
    C08,
    C09,
}

/// Property-specific verdict over a crash observation. Ok(nontrivial-features) or Err(message).
pub fn judge(j: Judge, cfg: &Cfg, obs: &CrashObs) -> Result<(), String> {
    if let Some(m) = &obs.unexpected_death {
        return Err(format!("the workload process ended on its own (not at the planned crash point): {}", m));
    }
    let rec = match &obs.recovered {
        Ok(r) => r,
        Err(m) => return Err(format!("recovery after the crash is not clean: {}", m)),
    };
    let mut cache = std::collections::HashMap::new();
    for (ti, d) in rec.iter().enumerate() {
        let t = ti as u32;
        let tm = &obs.model.topics[ti];
        let acked = &tm.appended;
        let inflight = inflight_entries(obs, t, &mut cache);
        let consumed = tm.consumed_max();
        let inflight_read_on_t = matches!(&obs.inflight, Some(Op::ReadNext { t: ot, ck: true, .. }) | Some(Op::BatchRead { t: ot, ck: true, off: None, .. }) if *ot == t);
        let strict = matches!(cfg.mode, Mode::Strict);
        let (c_lo, c_hi, tail) = match j {
            // C07: any redelivery is C09's business, nothing may be missing
            Judge::C07 => (0, if inflight_read_on_t { acked.len() } else { consumed }, Tail::Subsequence),
            Judge::C08 => (0, if inflight_read_on_t { acked.len() } else { consumed }, Tail::AllOrNone),
            Judge::C09 => {
                if strict {
                    let hi = match &obs.inflight {
                        Some(Op::ReadNext { t: ot, ck: true, .. }) if *ot == t => consumed + 1,
                        Some(Op::BatchRead { t: ot, ck: true, off: None, .. }) if *ot == t => acked.len(),
                        _ => consumed,
                    };
                    (consumed, hi, Tail::Subsequence)
                } else {
                    let hi = if inflight_read_on_t { acked.len() } else { consumed };
                    // read_next redelivers at most persist_every entries; batch reads are never
                    // persisted in AtLeastOnce mode, so the bound only applies to topics that
                    // were consumed through read_next alone
                    let every = match cfg.mode {
                        Mode::Alo(n) => n.max(1) as usize,
                        Mode::Strict => 1,
                    };
                    // (batch reads share and reset the persist counter without persisting, so
                    // for mixed consumption the property's bound is not defined; the dedicated
                    // search "alo-readnext" generates read_next-only consumers)
                    let rn = &obs.rn_positions[ti];
                    let k = rn.len().saturating_sub(every);
                    let lo = if obs.batch_consumed.get(ti).copied().unwrap_or(true) { 0 } else if k == 0 { 0 } else { rn[k - 1] };
                    (lo, hi, Tail::Subsequence)
                }
            }
        };
        match explain(d, acked, &inflight, c_lo, c_hi, tail) {
            Some(_) => {}
            None => {
                // was it explainable with a looser cursor? (better message)
                let loose = explain(d, acked, &inflight, 0, acked.len(), Tail::Subsequence);
                let what = match (j, loose) {
                    (Judge::C09, Some((c, _))) if strict && c < consumed => format!(
                        "StrictlyAtOnce consumer resumes at entry #{} although consuming reads had returned {} entries: {} entries are delivered again",
                        c,
                        consumed,
                        consumed - c
                    ),
                    (Judge::C09, Some((c, _))) if c < consumed => format!(
                        "AtLeastOnce consumer (read_next only) resumes at entry #{} although {} entries had been consumed: {} entries are delivered again, more than persist_every",
                        c,
                        consumed,
                        consumed - c
                    ),
                    (Judge::C09, Some((c, _))) => format!("consumer resumes at entry #{} but acknowledged consumption was {} (in-flight read: {}): entries are skipped", c, consumed, inflight_read_on_t),
                    (Judge::C08, Some((_, k))) => format!("a strict, non-empty subset of the in-flight batch is visible after recovery: {} of {} entries", k, inflight.len()),
                    (_, Some((c, _))) => format!("recovered stream starts at entry #{} although only {} entries had been consumed (entries skipped)", c, consumed),
                    (_, None) => "recovered stream is not the acknowledged entries followed by entries of the in-flight operation".to_string(),
                };
                return Err(format!(
                    "topic {}: {}. acknowledged appends: {}, consumed: {}, in flight: {:?}; recovered {}",
                    t,
                    what,
                    acked.len(),
                    consumed,
                    obs.inflight.as_ref().map(|o| format!("{:?}", o).chars().take(120).collect::<String>()),
                    describe_list(&obs.model, t, d)
                ));
            }
        }
    }
    Ok(())
}

// ------------------------------------------------------------------------------------------

pub fn plan_for(k: u64, torn: Option<u64>) -> String {
    match torn {
        Some(n) => format!("torn@{}={}", k, n),
        None => format!("die@{}", k),
    }
}

pub struct CrashCfg {
    pub judge: Judge,
    pub max_points: usize,
    /// only events inside steps selected by this predicate (C08: the final batch; C09: reads)
    pub focus: fn(&Step) -> bool,
    pub all_points_outside_focus: bool,
    pub exclude_inside_batch_writes: bool,
}

fn splitmix(mut z: u64) -> u64 {
    z = z.wrapping_add(0x9E37_79B9_7F4A_7C15);
    z = (z ^ (z >> 30)).wrapping_mul(0xBF58_476D_1CE4_E5B9);
    z = (z ^ (z >> 27)).wrapping_mul(0x94D0_49BB_1331_11EB);
    z ^ (z >> 31)
}

/// One generated workload: counting run, then a crash at each selected event.
pub fn crash_case(prop: &str, case: &Case, base: &RunOpts, cc: &CrashCfg) -> CaseReport {
    let mut rep = CaseReport::default();
    let cr = match counting_run(case, base) {
        Ok(c) => c,
        Err(e) => {
            rep.inconclusive = Some(e);
            return rep;
        }
    };
    rep.features = cr.features.clone();
    rep.excluded = cr.excluded.clone();
    if let Some(d) = &cr.diverged {
        rep.features.insert("counting_run_diverged".into());
        rep.sample = Some(json!({"diverged": d}));
        return rep;
    }
    let total = cr.events.len() as u64;
    if total == 0 {
        rep.inconclusive = Some("no H1 events recorded".into());
        return rep;
    }
    // candidate crash points
    let step_of = |k: u64| -> Option<usize> { cr.ranges.iter().position(|(a, b)| *a != 0 && k >= *a && k <= *b) };
    let mut cands: Vec<u64> = Vec::new();
    for e in &cr.events {
        let st = step_of(e.n);
        let in_focus = st.map(|i| (cc.focus)(&cr.steps[i])).unwrap_or(false);
        if in_focus || cc.all_points_outside_focus {
            cands.push(e.n);
        }
    }
    // known finding exclusion: crash strictly inside the data writes of a multi-entry batch
    let mut excluded_inside = 0u64;
    // data-write events of multi-entry batches: a torn variant of any of them (the first one
    // included) leaves a strict prefix as well, so no torn plan is built for them while the
    // finding is open
    let mut no_torn: BTreeSet<u64> = BTreeSet::new();
    if cc.exclude_inside_batch_writes {
        for (i, st) in cr.steps.iter().enumerate() {
            if let Step::Do(Op::Batch { lens, .. }) = st {
                if lens.len() >= 2 && i < cr.ranges.len() {
                    for e in cr.events.iter().filter(|e| e.n >= cr.ranges[i].0 && e.n <= cr.ranges[i].1 && (e.site == "block_write" || e.site == "batch_sqe")) {
                        no_torn.insert(e.n);
                    }
                }
            }
        }
    }
    if cc.exclude_inside_batch_writes {
        cands.retain(|k| {
            let Some(i) = step_of(*k) else { return true };
            let Step::Do(Op::Batch { lens, .. }) = &cr.steps[i] else { return true };
            if lens.len() < 2 {
                return true;
            }
            // data-write events of this step
            let writes: Vec<u64> = cr.events.iter().filter(|e| e.n >= cr.ranges[i].0 && e.n <= cr.ranges[i].1 && (e.site == "block_write" || e.site == "batch_sqe")).map(|e| e.n).collect();
            let Some(first) = writes.first() else { return true };
            let last = *writes.last().unwrap();
            // dying *before* the first write leaves nothing, dying after the last write leaves all;
            // strictly inside = before write 2..n  (die@k happens before event k is performed)
            // and, on the io_uring path, anything up to the submit (writes happen at submit time)
            let inside = *k > *first && *k <= last;
            if inside {
                excluded_inside += 1;
            }
            !inside
        });
    }
    if excluded_inside > 0 {
        *rep.excluded.entry("crash-inside-batch-data-writes".into()).or_insert(0) += excluded_inside;
    }
    if cands.is_empty() {
        rep.sample = Some(json!({"events": total, "note": "no candidate crash point"}));
        return rep;
    }
    // selection: everything if it fits, else a deterministic stratified sample (first and last
    // event of every multi-event step first)
    let h0 = str_hash(&serde_json::to_string(case).unwrap_or_default());
    let mut chosen: Vec<u64> = Vec::new();
    if cands.len() <= cc.max_points {
        chosen = cands.clone();
    } else {
        for (a, b) in cr.ranges.iter() {
            if *a != 0 && b > a {
                for k in [*a + 1, *b] {
                    if cands.contains(&k) && !chosen.contains(&k) && chosen.len() < cc.max_points / 2 {
                        chosen.push(k);
                    }
                }
            }
        }
        let mut i = 0u64;
        while chosen.len() < cc.max_points && i < 10_000 {
            let k = cands[(splitmix(h0 ^ i) % cands.len() as u64) as usize];
            if !chosen.contains(&k) {
                chosen.push(k);
            }
            i += 1;
        }
    }
    chosen.sort();
    let mut sites: BTreeSet<String> = BTreeSet::new();
    let mut sub = 0u64;
    let mut sub_nt = 0u64;
    let mut first_sample: Option<Value> = None;
    for (ci, k) in chosen.iter().enumerate() {
        let ev = cr.events.iter().find(|e| e.n == *k).cloned();
        let site = ev.as_ref().map(|e| e.site.clone()).unwrap_or_default();
        // torn variant for some block writes (mmap backend: a store can be cut anywhere)
        let torn = match &ev {
            Some(e) if e.site == "block_write" && e.len > 1 && !no_torn.contains(k) && (splitmix(h0 ^ *k) % 3 == 0) => Some(1 + splitmix(h0 ^ *k ^ 77) % (e.len - 1)),
            _ => None,
        };
        let plan = plan_for(*k, torn);
        let obs = crash_run(&case.cfg, &cr.steps, &plan, base, splitmix(h0 ^ *k ^ 5) % 2 == 0);
        sub += 1;
        if let Some(h) = &obs.harness_problem {
            rep.inconclusive = Some(h.clone());
            continue;
        }
        if obs.diverged.is_some() {
            rep.features.insert("crash_run_diverged".into());
            continue;
        }
        sites.insert(site.clone());
        rep.features.insert(format!("crash_at_{}", site));
        if torn.is_some() {
            rep.features.insert("torn_write".into());
        }
        let st = step_of(*k);
        let strictly_inside = st.map(|i| cr.ranges[i].1 > cr.ranges[i].0 && *k > cr.ranges[i].0).unwrap_or(false) || torn.is_some();
        let nt = match cc.judge {
            Judge::C07 | Judge::C08 => strictly_inside,
            Judge::C09 => {
                let read_inside = st.map(|i| matches!(&cr.steps[i], Step::Do(Op::ReadNext { ck: true, .. }) | Step::Do(Op::BatchRead { ck: true, .. }))).unwrap_or(false);
                read_inside || obs.model.topics.iter().any(|t| t.consumed_max() > 0)
            }
        };
        if nt {
            sub_nt += 1;
        }
        if first_sample.is_none() || (nt && ci % 3 == 0) {
            first_sample = Some(json!({
                "cfg": case.cfg,
                "workload_steps": cr.steps.len(),
                "io_events": total,
                "crash_plan": plan,
                "crash_site": site,
                "in_flight": obs.inflight.as_ref().map(|o| format!("{:?}", o).chars().take(160).collect::<String>()),
                "recovered_per_topic": obs.recovered.as_ref().map(|r| r.iter().map(|v| v.len()).collect::<Vec<_>>()).unwrap_or_default(),
                "trace_tail": obs.trace.iter().rev().take(6).rev().collect::<Vec<_>>(),
            }));
        }
        if let Err(msg) = judge(cc.judge, &case.cfg, &obs) {
            let body = json!({
                "kind": "crash",
                "property": prop,
                "judge": cc.judge,
                "cfg": case.cfg,
                "steps": cr.steps,
                "plan": plan,
                "site": site,
                "opts": opts_json(base),
                "message": msg,
                "trace_tail": obs.trace.iter().rev().take(30).rev().collect::<Vec<_>>(),
                "repeat": 3,
            });
            rep.violation = Some((format!("[{:?}] crash plan {} ({}): {}", cc.judge, plan, site, msg), body));
            break;
        }
    }
    rep.sub_evaluations = sub.saturating_sub(1);
    rep.sub_nontrivial = sub_nt;
    rep.nontrivial = false;
    rep.sample = first_sample;
    rep
}

pub fn replay(body: &Value) -> Result<Option<String>, String> {
    let cfg: Cfg = serde_json::from_value(body.get("cfg").cloned().ok_or("no cfg")?).map_err(|e| e.to_string())?;
    let steps: Vec<Step> = serde_json::from_value(body.get("steps").cloned().ok_or("no steps")?).map_err(|e| e.to_string())?;
    let j: Judge = serde_json::from_value(body.get("judge").cloned().ok_or("no judge")?).map_err(|e| e.to_string())?;
    let plan = body.get("plan").and_then(|p| p.as_str()).ok_or("no plan")?.to_string();
    let opts = opts_from_json(body.get("opts").unwrap_or(&Value::Null));
    let obs = crash_run(&cfg, &steps, &plan, &opts, true);
    if let Some(h) = obs.harness_problem {
        return Err(h);
    }
    if let Some(d) = obs.diverged {
        return Err(format!("workload diverged before the crash point: {}", d));
    }
    Ok(judge(j, &cfg, &obs).err())
}

// ------------------------------------------------------------------------------------------ C07

fn any_step(_: &Step) -> bool {
    true
}

fn c07_mix() -> Mix {
    Mix { append: 34, batch: 22, batch_many: 0, read_next: 8, batch_read: 6, max_batch: 6, ..Mix::consuming() }
}

pub fn c07(ctx: &Ctx) {
    regress_and_probes(ctx);
    let excl = exclusions_for("C07");
    let q = ctx.tier == Tier::Quick;
    let plans: Vec<(&str, SizeProfile, std::ops::Range<usize>, usize, usize)> = vec![
        ("tiny", SizeProfile::Tiny, 3..25, if q { 56 } else { 1200 }, if q { 16 } else { 400 }),
        ("block", SizeProfile::Block, 3..12, if q { 32 } else { 500 }, if q { 12 } else { 400 }),
    ];
    for (name, prof, nops, cases, pts) in plans {
        let prop = ctx.prop.clone();
        let mut base = RunOpts::default();
        base.exclude = excl.clone();
        let nops2 = nops.clone();
        let s = Search {
            name: name.to_string(),
            strategy: Box::new(move || case_strategy(c07_mix(), prof, nops2.clone(), 2, mode_strategy())),
            run: Box::new(move |case: &Case| {
                let cc = CrashCfg { judge: Judge::C07, max_points: pts, focus: any_step, all_points_outside_focus: true, exclude_inside_batch_writes: false };
                crash_case(&prop, case, &base, &cc)
            }),
            cases,
            workers: cores(),
            max_shrink_iters: 60,
            shrink_secs: 300,
        };
        run_search(ctx, &s);
    }
    // the same with concurrent producers (H2 schedule) instead of a sequential workload
    super::crashconc::search(ctx, if q { 64 } else { 2_400 }, if q { 6 } else { 16 });
}

// ------------------------------------------------------------------------------------------ C08

fn is_batch(s: &Step) -> bool {
    matches!(s, Step::Do(Op::Batch { .. }))
}

fn c08_mix() -> Mix {
    Mix { append: 20, batch: 40, batch_many: 2, read_next: 4, batch_read: 4, max_batch: 12, ..Mix::consuming() }
}

pub fn c08(ctx: &Ctx) {
    regress_and_probes(ctx);
    let excl = exclusions_for("C08");
    let exclude_inside = excl.contains("crash-inside-batch-data-writes");
    let q = ctx.tier == Tier::Quick;
    let plans: Vec<(&str, SizeProfile, std::ops::Range<usize>, usize, usize)> = vec![
        ("tiny", SizeProfile::Tiny, 2..14, if q { 56 } else { 1200 }, if q { 16 } else { 600 }),
        ("block", SizeProfile::Block, 2..8, if q { 32 } else { 500 }, if q { 12 } else { 600 }),
    ];
    for (name, prof, nops, cases, pts) in plans {
        let prop = ctx.prop.clone();
        let mut base = RunOpts::default();
        base.exclude = excl.clone();
        let nops2 = nops.clone();
        let s = Search {
            name: name.to_string(),
            strategy: Box::new(move || case_strategy(c08_mix(), prof, nops2.clone(), 2, mode_strategy())),
            run: Box::new(move |case: &Case| {
                let cc = CrashCfg { judge: Judge::C08, max_points: pts, focus: is_batch, all_points_outside_focus: false, exclude_inside_batch_writes: exclude_inside };
                crash_case(&prop, case, &base, &cc)
            }),
            cases,
            workers: cores(),
            max_shrink_iters: 60,
            shrink_secs: 300,
        };
        run_search(ctx, &s);
    }
}

// ------------------------------------------------------------------------------------------ C09

fn is_consuming_read(s: &Step) -> bool {
    matches!(s, Step::Do(Op::ReadNext { ck: true, .. }) | Step::Do(Op::BatchRead { ck: true, off: None, .. }))
}

fn c09_mix() -> Mix {
    Mix { append: 26, batch: 10, batch_many: 0, read_next: 34, batch_read: 14, max_batch: 6, ..Mix::consuming() }
}

pub fn c09(ctx: &Ctx) {
    regress_and_probes(ctx);
    let excl = exclusions_for("C09");
    let q = ctx.tier == Tier::Quick;
    let plans: Vec<(&str, SizeProfile, std::ops::Range<usize>, usize, usize)> = vec![
        ("tiny", SizeProfile::Tiny, 4..30, if q { 56 } else { 1200 }, if q { 16 } else { 400 }),
        ("block", SizeProfile::Block, 4..14, if q { 32 } else { 500 }, if q { 12 } else { 400 }),
    ];
    let plans_n = plans.len();
    let mut plans = plans;
    // AtLeastOnce consumers that use read_next only: the persist_every redelivery bound
    plans.push(("alo-readnext", SizeProfile::Tiny, 6..40, if q { 48 } else { 1000 }, if q { 12 } else { 400 }));
    for (pi, (name, prof, nops, cases, pts)) in plans.into_iter().enumerate() {
        let prop = ctx.prop.clone();
        let mut base = RunOpts::default();
        base.exclude = excl.clone();
        let nops2 = nops.clone();
        let rn_only = pi >= plans_n;
        let s = Search {
            name: name.to_string(),
            strategy: Box::new(move || {
                if rn_only {
                    case_strategy(Mix { append: 30, batch: 10, read_next: 50, batch_read: 0, max_batch: 6, ..Mix::consuming() }, prof, nops2.clone(), 2, (1u32..=6).prop_map(Mode::Alo).boxed())
                } else {
                    case_strategy(c09_mix(), prof, nops2.clone(), 2, prop_oneof![2 => Just(Mode::Strict), 1 => (1u32..=8).prop_map(Mode::Alo)].boxed())
                }
            }),
            run: Box::new(move |case: &Case| {
                let cc = CrashCfg { judge: Judge::C09, max_points: pts, focus: is_consuming_read, all_points_outside_focus: true, exclude_inside_batch_writes: false };
                crash_case(&prop, case, &base, &cc)
            }),
            cases,
            workers: cores(),
            max_shrink_iters: 60,
            shrink_secs: 300,
        };
        run_search(ctx, &s);
    }
    // producers and consumers running concurrently (H2 schedule) when the process dies
    super::crashconc::search_consumers(ctx, if q { 64 } else { 2_400 }, if q { 6 } else { 16 });
}

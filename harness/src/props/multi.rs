//! E4 (C13): several live instances in one process - different namespace keys and/or data
//! directories, same topic names - each judged against its own FIFO model; plus the heavy
//! reclamation scenario in which one instance consumes everything while the other consumes
//! nothing (their block ids collide in the process-global trackers).
use super::*;
use crate::child::*;
use crate::proto::*;
use proptest::prelude::*;
use serde::{Deserialize, Serialize};
use std::collections::HashMap;

/// (data dir, key): pairwise either the directory differs or the keys sanitise differently
/// ("d1", None) is the un-keyed instance living in the parent directory of d1's keyed ones; the
/// key "42" gives it a sibling directory that is named like a WAL file
const SLOTS: [(&str, Option<&str>); 6] = [("d0", Some("alpha")), ("d0", Some("beta")), ("d1", Some("alpha")), ("d1", None), ("d0", Some("g.1")), ("d1", Some("42"))];

#[derive(Clone, Debug, Serialize, Deserialize, PartialEq, Eq, Hash)]
pub enum MOp {
    Append { t: u16, size: Size },
    Batch { t: u16, sizes: Vec<Size> },
    ReadNext { t: u16, ck: bool },
    BatchRead { t: u16, budget: Budget, ck: bool },
    Count { t: u16 },
    MarkClean { t: u16 },
    MarkDirty { t: u16 },
    IsClean { t: u16 },
    /// drop this instance and build it again in the same process
    Reopen,
    /// n appends of 5.3 MiB (n blocks)
    Fill { t: u16, n: u8 },
    DrainAll,
}

#[derive(Clone, Debug, Serialize, Deserialize, PartialEq, Eq, Hash)]
pub struct InstCfg {
    pub slot: u8,
    pub mode: Mode,
    pub fsync: Fsync,
}

#[derive(Clone, Debug, Serialize, Deserialize, PartialEq, Eq, Hash)]
pub struct MultiCase {
    pub fd: bool,
    pub topics: Vec<u8>,
    pub insts: Vec<InstCfg>,
    pub ops: Vec<(u8, MOp)>,
    /// restart the whole process before the final drain
    pub restart: bool,
    /// heavy: wait for the reclaimer before the end
    pub wait_ms: u16,
    pub drain: Vec<DrainStep>,
}

fn mop_strategy(p: SizeProfile) -> BoxedStrategy<MOp> {
    let t = any::<u16>();
    prop_oneof![
        30 => (t.clone(), size_strategy(p)).prop_map(|(t, size)| MOp::Append { t, size }),
        10 => (t.clone(), proptest::collection::vec(size_strategy(p), 1..6)).prop_map(|(t, sizes)| MOp::Batch { t, sizes }),
        16 => (t.clone(), prop_oneof![4 => Just(true), 1 => Just(false)]).prop_map(|(t, ck)| MOp::ReadNext { t, ck }),
        14 => (t.clone(), budget_strategy(), prop_oneof![4 => Just(true), 1 => Just(false)]).prop_map(|(t, budget, ck)| MOp::BatchRead { t, budget, ck }),
        8 => t.clone().prop_map(|t| MOp::Count { t }),
        4 => t.clone().prop_map(|t| MOp::MarkClean { t }),
        3 => t.clone().prop_map(|t| MOp::MarkDirty { t }),
        6 => t.clone().prop_map(|t| MOp::IsClean { t }),
        4 => Just(MOp::Reopen),
    ]
    .boxed()
}

fn insts_strategy(n: std::ops::RangeInclusive<usize>) -> BoxedStrategy<Vec<InstCfg>> {
    (proptest::sample::subsequence((0..SLOTS.len() as u8).collect::<Vec<u8>>(), n).prop_shuffle(), proptest::collection::vec((mode_strategy(), fsync_strategy()), 3))
        .prop_map(|(slots, cfgs)| slots.into_iter().enumerate().map(|(i, slot)| InstCfg { slot, mode: cfgs[i % cfgs.len()].0.clone(), fsync: cfgs[i % cfgs.len()].1.clone() }).collect())
        .boxed()
}

pub fn light_strategy(p: SizeProfile, nops: std::ops::Range<usize>) -> BoxedStrategy<MultiCase> {
    (any::<bool>(), topics_strategy(2), insts_strategy(2..=3), proptest::collection::vec((any::<u8>(), mop_strategy(p)), nops), any::<bool>(), drain_strategy())
        .prop_map(|(fd, topics, mut insts, ops, restart, drain)| {
            // a quarter of the cases: the keyed instance with the digit-only key is opened first,
            // the un-keyed instance of the same data directory second
            if ops.len() % 4 == 0 && insts.len() >= 2 {
                insts[0].slot = 5;
                insts[1].slot = 3;
                for i in insts.iter_mut().skip(2) {
                    if i.slot == 5 || i.slot == 3 {
                        i.slot = 0;
                    }
                }
            }
            MultiCase { fd, topics, insts, ops, restart, wait_ms: 0, drain }
        })
        .boxed()
}

/// Instance 0 (created first: its worker owns the deletion channel, so it gets the 1 ms tick)
/// fills its first file and consumes a generated part of it; instance 1 allocates at least as
/// many blocks and consumes everything.
pub fn heavy_strategy() -> BoxedStrategy<MultiCase> {
    (any::<bool>(), insts_strategy(2..=2), 0u8..3, any::<u16>(), 0u8..30, proptest::collection::vec((any::<u8>(), mop_strategy(SizeProfile::Tiny)), 0..12), drain_strategy())
        .prop_map(|(fd, mut insts, a_consume, t2, extra_b, noise, drain)| {
            // half of the heavy cases use the two slots that differ only in the data directory
            // (same key): the closest two instances can be while still having to be isolated
            if extra_b % 2 == 0 {
                let (a, b) = if extra_b % 4 == 0 { (0u8, 2u8) } else { (2u8, 0u8) };
                insts[0].slot = a;
                insts[1].slot = b;
            }
            insts[0].fsync = Fsync::Ms(1);
            insts[1].fsync = Fsync::Ms(1);
            insts[0].mode = Mode::Strict;
            let mut ops: Vec<(u8, MOp)> = Vec::new();
            // interleave the two fills in chunks so that block ids collide one to one
            for _ in 0..10 {
                ops.push((0, MOp::Fill { t: 0, n: 10 }));
                ops.push((1, MOp::Fill { t: 0, n: 10 }));
            }
            ops.push((0, MOp::Fill { t: 0, n: 1 }));
            ops.push((1, MOp::Fill { t: t2, n: 1 + extra_b % 4 }));
            ops.push((1, MOp::Fill { t: 0, n: 1 }));
            for (i, op) in noise {
                if !matches!(op, MOp::Reopen) {
                    ops.push((i % 2, op));
                }
            }
            // instance 0: nothing / a few entries / peeks only
            match a_consume {
                1 => {
                    for _ in 0..5 {
                        ops.push((0, MOp::ReadNext { t: 0, ck: true }));
                    }
                }
                2 => ops.push((0, MOp::BatchRead { t: 0, budget: Budget::Max, ck: false })),
                _ => {}
            }
            ops.push((1, MOp::DrainAll));
            ops.push((1, MOp::ReadNext { t: 0, ck: true }));
            ops.push((1, MOp::ReadNext { t: t2, ck: true }));
            MultiCase { fd, topics: vec![0, 2], insts, ops, restart: true, wait_ms: 1700, drain }
        })
        .boxed()
}

struct Inst {
    cfg: InstCfg,
    model: InstModel,
    open: bool,
}

pub struct MultiOutcome {
    pub features: BTreeSet<String>,
    pub violation: Option<String>,
    pub inconclusive: Option<String>,
    pub trace: Vec<String>,
    pub n_steps: usize,
}

struct MRun {
    case: MultiCase,
    scratch: Scratch,
    init: Init,
    child: Option<ChildProc>,
    insts: Vec<Inst>,
    cache: HashMap<(u32, u64, u64), u64>,
    seq: u64,
    out: MultiOutcome,
}

type MCheck = Result<(), String>;

impl MRun {
    fn open_op(&self, i: usize) -> Op {
        let (dir, key) = SLOTS[self.insts[i].cfg.slot as usize % SLOTS.len()];
        Op::Open { inst: i as u8, dir: dir.to_string(), key: key.map(|k| k.to_string()), mode: self.insts[i].cfg.mode.clone(), fsync: self.insts[i].cfg.fsync.clone(), ctor: Ctor::Builder }
    }
    fn inst_dir(&self, i: usize) -> std::path::PathBuf {
        let (dir, key) = SLOTS[self.insts[i].cfg.slot as usize % SLOTS.len()];
        match key {
            Some(k) => self.scratch.path.join(dir).join(k),
            None => self.scratch.path.join(dir),
        }
    }
    fn wal_files(&self, i: usize) -> usize {
        std::fs::read_dir(self.inst_dir(i))
            .map(|rd| rd.filter_map(|e| e.ok()).filter(|e| e.file_type().map(|t| t.is_file()).unwrap_or(false)).filter(|e| e.file_name().to_string_lossy().bytes().all(|c| c.is_ascii_digit())).count())
            .unwrap_or(0)
    }
    fn call(&mut self, op: &Op) -> Result<Resp, String> {
        self.out.n_steps += 1;
        let r = match self.child.as_mut() {
            Some(c) => c.call(op),
            None => return Err("no child".into()),
        };
        self.out.trace.push(format!("{:?} -> {}", short(op), r.short()));
        match &r {
            Resp::Timeout => {
                self.out.inconclusive = Some(format!("watchdog: {:?}", short(op)));
                Err("timeout".into())
            }
            Resp::Panic(m) => Err(format!("engine panicked during {}: {}", short(op), m)),
            Resp::Died(m) => Err(format!("process died during {}: {}", short(op), m)),
            _ => Ok(r),
        }
    }
    fn spawn_all(&mut self) -> MCheck {
        let c = ChildProc::spawn(&self.init, &SpawnOpts::default()).map_err(|e| {
            self.out.inconclusive = Some(format!("spawn: {}", e));
            "spawn".to_string()
        })?;
        self.child = Some(c);
        for i in 0..self.insts.len() {
            let op = self.open_op(i);
            match self.call(&op)? {
                Resp::Ok => self.insts[i].open = true,
                other => return Err(format!("opening instance {} failed: {}", i, other.short())),
            }
        }
        Ok(())
    }
    fn model_reopen(&mut self, i: usize) {
        let m = &mut self.insts[i].model;
        if !matches!(m.mode, Mode::Strict) {
            for tm in m.topics.iter_mut() {
                let hi = tm.consumed_max();
                tm.cursors = (0..=hi).collect();
            }
            m.alo_restarted = true;
        }
    }
    fn v(&self, i: usize, r: Check) -> MCheck {
        r.map_err(|v| {
            let (dir, key) = SLOTS[self.insts[i].cfg.slot as usize % SLOTS.len()];
            format!("instance {} (dir {}, key {:?}): [{:?}] {}", i, dir, key, v.oracle, v.msg)
        })
    }
    /// is this entry known to another instance's model? (better message)
    fn foreign(&self, i: usize, t: u32, r: &Resp) -> Option<String> {
        let ents: Vec<&Ent> = match r {
            Resp::Some(e) => vec![e],
            Resp::List(v) => v.iter().collect(),
            _ => vec![],
        };
        for e in ents {
            if e.len < 8 {
                continue;
            }
            let own = self.insts[i].model.topics[t as usize].appended.iter().any(|id| same(e, id));
            if own {
                continue;
            }
            for (j, other) in self.insts.iter().enumerate() {
                if j != i && other.model.topics.iter().any(|tm| tm.appended.iter().any(|id| same(e, id))) {
                    return Some(format!("instance {} returned an entry (len {}) that was appended to instance {}", i, e.len, j));
                }
            }
        }
        None
    }
    fn data_op(&mut self, i: usize, op: Op) -> MCheck {
        let resp = self.call(&op)?;
        if let Op::ReadNext { t, .. } | Op::BatchRead { t, .. } = &op {
            if let Some(m) = self.foreign(i, *t, &resp) {
                return Err(m);
            }
        }
        match &op {
            Op::Append { t, seq, len, .. } => match &resp {
                Resp::Hashes(hs) if hs.len() == 1 => {
                    if *len > 65_536 {
                        self.cache.insert((*t, *seq, *len), hs[0]);
                    }
                    let id = ent_id(*t, *seq, *len, &mut self.cache);
                    self.insts[i].model.on_append_ok(*t, id);
                    Ok(())
                }
                Resp::Err { .. } => {
                    self.insts[i].model.topics[*t as usize].clean_unknown = true;
                    Ok(())
                }
                other => Err(format!("append: {}", other.short())),
            },
            Op::Batch { t, seq0, lens, .. } => match &resp {
                Resp::Hashes(hs) if hs.len() == lens.len() => {
                    for (k, l) in lens.iter().enumerate() {
                        if *l > 65_536 {
                            self.cache.insert((*t, seq0 + k as u64, *l), hs[k]);
                        }
                        let id = ent_id(*t, seq0 + k as u64, *l, &mut self.cache);
                        self.insts[i].model.on_append_ok(*t, id);
                    }
                    Ok(())
                }
                Resp::Err { .. } => {
                    self.insts[i].model.topics[*t as usize].clean_unknown = true;
                    Ok(())
                }
                other => Err(format!("batch: {}", other.short())),
            },
            Op::ReadNext { t, ck, .. } => {
                let r = self.insts[i].model.check_read_next(*t, *ck, &resp);
                self.v(i, r)
            }
            Op::BatchRead { t, budget, ck, .. } => {
                let r = self.insts[i].model.check_batch_read(*t, *budget, *ck, &resp);
                self.v(i, r)
            }
            Op::Count { t, .. } => {
                let r = self.insts[i].model.check_count(*t, &resp);
                self.v(i, r)
            }
            Op::MarkClean { t, .. } => {
                let tm = &mut self.insts[i].model.topics[*t as usize];
                tm.clean = true;
                tm.clean_unknown = false;
                Ok(())
            }
            Op::MarkDirty { t, .. } => {
                let tm = &mut self.insts[i].model.topics[*t as usize];
                tm.clean = false;
                tm.clean_unknown = false;
                Ok(())
            }
            Op::IsClean { t, .. } => match resp {
                Resp::Bool(b) => {
                    let tm = &mut self.insts[i].model.topics[*t as usize];
                    if tm.clean_unknown {
                        tm.clean = b;
                        tm.clean_unknown = false;
                    }
                    if b != tm.clean {
                        return Err(format!("instance {}: topic {} reports clean={} but its own history says clean={}", i, t, b, tm.clean));
                    }
                    Ok(())
                }
                other => Err(format!("is_clean: {}", other.short())),
            },
            _ => Ok(()),
        }
    }
    fn len_of(&self, s: &Size) -> u64 {
        match s {
            Size::Empty => 0,
            Size::Tiny(i) => {
                let k = idx(*i, 300 + 3 * TINY_SPECIALS.len());
                if k < 3 * TINY_SPECIALS.len() {
                    TINY_SPECIALS[k / 3]
                } else {
                    (k - 3 * TINY_SPECIALS.len()) as u64
                }
            }
            Size::Small(n) | Size::Medium(n) | Size::Large(n) | Size::Multi(n) => *n as u64,
            Size::Fit(s) => (BLOCK - HDR).saturating_sub((*s as i64).unsigned_abs() * 1000),
        }
    }
    fn budget(&self, i: usize, t: u32, b: &Budget) -> u64 {
        let tm = &self.insts[i].model.topics[t as usize];
        match b {
            Budget::Zero => 0,
            Budget::One => 1,
            Budget::NextLen(d) => (tm.next_len(0).unwrap_or(0) as i64 + *d as i64).max(0) as u64,
            Budget::SumNext(k, d) => ((0..*k as usize).map(|j| tm.next_len(j).unwrap_or(0)).sum::<u64>() as i64 + *d as i64).max(0) as u64,
            Budget::Bytes(n) => *n as u64,
            Budget::Max => u64::MAX,
        }
    }
    fn drain_inst(&mut self, i: usize) -> MCheck {
        let nt = self.insts[i].model.topics.len();
        let choices = self.case.drain.clone();
        let mut k = 0usize;
        for t in 0..nt as u32 {
            let mut empties = 0;
            let mut guard = self.insts[i].model.topics[t as usize].appended.len() * 2 + 50;
            while empties < 2 && guard > 0 {
                guard -= 1;
                let mut ch = if choices.is_empty() { DrainStep::Next } else { choices[k % choices.len()].clone() };
                k += 1;
                if self.insts[i].model.topics[t as usize].avail_min() > 200 {
                    ch = DrainStep::Batch(Budget::Max);
                }
                let before = self.insts[i].model.topics[t as usize].cursors.clone();
                let op = match ch {
                    DrainStep::Next => Op::ReadNext { inst: i as u8, t, ck: true },
                    DrainStep::Batch(b) => Op::BatchRead { inst: i as u8, t, budget: self.budget(i, t, &b), ck: true, off: None },
                };
                self.data_op(i, op)?;
                let tm = &self.insts[i].model.topics[t as usize];
                if tm.cursors == before && tm.consumed_min() >= tm.appended.len() {
                    empties += 1;
                }
            }
            let tm = &self.insts[i].model.topics[t as usize];
            if tm.consumed_min() != tm.appended.len() {
                return Err(format!("instance {}: after the drain topic {} has cursor {:?} of {}", i, t, tm.cursors, tm.appended.len()));
            }
        }
        Ok(())
    }
    fn step(&mut self, i: usize, op: &MOp) -> MCheck {
        let nt = self.insts[i].model.topics.len();
        let inst = i as u8;
        match op {
            MOp::Append { t, size } => {
                let t = idx(*t, nt) as u32;
                let len = self.len_of(size);
                let seq = self.seq;
                self.seq += 1;
                self.data_op(i, Op::Append { inst, t, seq, len })
            }
            MOp::Batch { t, sizes } => {
                let t = idx(*t, nt) as u32;
                let lens: Vec<u64> = sizes.iter().map(|s| self.len_of(s)).collect();
                let seq0 = self.seq;
                self.seq += lens.len() as u64;
                self.data_op(i, Op::Batch { inst, t, seq0, lens })
            }
            MOp::ReadNext { t, ck } => self.data_op(i, Op::ReadNext { inst, t: idx(*t, nt) as u32, ck: *ck }),
            MOp::BatchRead { t, budget, ck } => {
                let t = idx(*t, nt) as u32;
                let b = self.budget(i, t, budget);
                self.data_op(i, Op::BatchRead { inst, t, budget: b, ck: *ck, off: None })
            }
            MOp::Count { t } => self.data_op(i, Op::Count { inst, t: idx(*t, nt) as u32 }),
            MOp::MarkClean { t } => self.data_op(i, Op::MarkClean { inst, t: idx(*t, nt) as u32 }),
            MOp::MarkDirty { t } => self.data_op(i, Op::MarkDirty { inst, t: idx(*t, nt) as u32 }),
            MOp::IsClean { t } => self.data_op(i, Op::IsClean { inst, t: idx(*t, nt) as u32 }),
            MOp::Reopen => {
                self.call(&Op::Close { inst })?;
                let op = self.open_op(i);
                match self.call(&op)? {
                    Resp::Ok => {}
                    other => return Err(format!("reopening instance {} failed: {}", i, other.short())),
                }
                self.model_reopen(i);
                self.out.features.insert("instance_reopened_while_others_live".into());
                Ok(())
            }
            MOp::Fill { t, n } => {
                let t = idx(*t, nt) as u32;
                for _ in 0..*n {
                    let seq = self.seq;
                    self.seq += 1;
                    self.data_op(i, Op::Append { inst, t, seq, len: 5 * MIB + 300 * 1024 })?;
                }
                Ok(())
            }
            MOp::DrainAll => self.drain_inst(i),
        }
    }
}

fn short(op: &Op) -> String {
    format!("{:?}", op).chars().take(120).collect()
}

pub fn run_multi(case: &MultiCase) -> MultiOutcome {
    let scratch = Scratch::new(false);
    let pool = topic_pool();
    let topics: Vec<String> = case.topics.iter().map(|i| pool[*i as usize % pool.len()].clone()).collect();
    let init = Init { base: scratch.s(), fd_backend: case.fd, topics: topics.clone(), ack_log: None };
    let insts = case.insts.iter().map(|c| Inst { cfg: c.clone(), model: InstModel::new(c.mode.clone(), topics.len()), open: false }).collect();
    let mut r = MRun {
        case: case.clone(),
        scratch,
        init,
        child: None,
        insts,
        cache: HashMap::new(),
        seq: 0,
        out: MultiOutcome { features: BTreeSet::new(), violation: None, inconclusive: None, trace: Vec::new(), n_steps: 0 },
    };
    let res = (|| -> MCheck {
        r.spawn_all()?;
        let n = r.insts.len();
        let ops = r.case.ops.clone();
        let mut touched: BTreeSet<usize> = BTreeSet::new();
        for (i, op) in &ops {
            let i = *i as usize % n;
            // files of the *other* instances before / after
            let before: Vec<usize> = (0..n).map(|j| r.wal_files(j)).collect();
            r.step(i, op)?;
            touched.insert(i);
            for j in 0..n {
                if j != i && r.wal_files(j) < before[j] && r.case.wait_ms == 0 {
                    return Err(format!("an operation on instance {} removed a WAL file of instance {}", i, j));
                }
            }
        }
        if touched.len() >= 2 {
            r.out.features.insert("two_instances_used".into());
        }
        // same topic name holding different data in two instances
        for t in 0..topics.len() {
            if r.insts.iter().filter(|x| !x.model.topics[t].appended.is_empty()).count() >= 2 {
                r.out.features.insert("same_topic_in_two_instances".into());
            }
        }
        if r.case.wait_ms > 0 {
            let before: Vec<usize> = (0..n).map(|j| r.wal_files(j)).collect();
            r.call(&Op::Sleep { ms: r.case.wait_ms as u64 })?;
            r.out.features.insert("waited_for_reclaimer".into());
            for j in 0..n {
                let after = r.wal_files(j);
                if after < before[j] {
                    r.out.features.insert("wal_file_deleted".into());
                    let unconsumed: usize = r.insts[j].model.topics.iter().map(|t| t.appended.len() - t.consumed_min()).sum();
                    let consumed: usize = r.insts[j].model.topics.iter().map(|t| t.consumed_min()).sum();
                    // the first file holds this instance's first 100 blocks = first 100 appends
                    if consumed < 100 && unconsumed > 0 {
                        return Err(format!(
                            "a WAL file of instance {} was reclaimed ({} -> {} files) although that instance had consumed only {} of its entries ({} unconsumed): consumption in another instance was counted for it",
                            j, before[j], after, consumed, unconsumed
                        ));
                    }
                }
            }
        }
        if r.case.restart {
            // clean exit, fresh process, all instances again
            if let Some(c) = r.child.take() {
                let code = c.exit(false);
                if code != Some(0) {
                    return Err(format!("clean shutdown ended with status {:?}", code));
                }
            }
            r.spawn_all()?;
            for i in 0..n {
                r.model_reopen(i);
            }
            r.out.features.insert("process_restart".into());
        }
        for i in 0..n {
            r.drain_inst(i)?;
        }
        Ok(())
    })();
    if let Err(m) = res {
        if r.out.inconclusive.is_none() {
            r.out.violation = Some(m);
        }
    }
    if let Some(c) = r.child.take() {
        let _ = c.exit(true);
    }
    r.out
}

fn report(prop: &str, case: &MultiCase, o: MultiOutcome, heavy: bool) -> CaseReport {
    let mut rep = CaseReport::default();
    rep.features = o.features.clone();
    rep.inconclusive = o.inconclusive.clone();
    rep.nontrivial = o.inconclusive.is_none()
        && if heavy { o.features.contains("waited_for_reclaimer") } else { o.features.contains("same_topic_in_two_instances") && (o.features.contains("instance_reopened_while_others_live") || o.features.contains("process_restart")) };
    let n = o.trace.len();
    if let Some(msg) = &o.violation {
        let body = json!({"kind": "multi", "property": prop, "case": case, "message": msg, "trace_tail": o.trace[n.saturating_sub(40)..].to_vec()});
        rep.violation = Some((msg.clone(), body));
    }
    rep.sample = Some(json!({
        "instances": case.insts.iter().map(|c| format!("{:?} {:?} {:?}", SLOTS[c.slot as usize % SLOTS.len()], c.mode, c.fsync)).collect::<Vec<_>>(),
        "ops": case.ops.len(),
        "steps": o.n_steps,
        "first_steps": o.trace.iter().take(12).collect::<Vec<_>>(),
        "features": o.features,
    }));
    rep
}

pub fn replay(body: &Value) -> Result<Option<String>, String> {
    let case: MultiCase = serde_json::from_value(body.get("case").cloned().ok_or("no case")?).map_err(|e| e.to_string())?;
    let o = run_multi(&case);
    if let Some(i) = o.inconclusive {
        return Err(i);
    }
    Ok(o.violation)
}

pub fn c13(ctx: &Ctx) {
    regress_and_probes(ctx);
    let q = ctx.tier == Tier::Quick;
    for (name, prof, nops, cases) in [("light-tiny", SizeProfile::Tiny, 10..80usize, if q { 500 } else { 15_000 }), ("light-block", SizeProfile::Block, 6..24usize, if q { 80 } else { 4_000 })] {
        let prop = ctx.prop.clone();
        let nops2 = nops.clone();
        let s = Search {
            name: name.to_string(),
            strategy: Box::new(move || light_strategy(prof, nops2.clone())),
            run: Box::new(move |case: &MultiCase| {
                let o = run_multi(case);
                report(&prop, case, o, false)
            }),
            cases,
            workers: cores(),
            max_shrink_iters: 300,
            shrink_secs: 240,
        };
        run_search(ctx, &s);
    }
    let prop = ctx.prop.clone();
    let s = Search {
        name: "heavy-reclaim-crosstalk".to_string(),
        strategy: Box::new(heavy_strategy),
        run: Box::new(move |case: &MultiCase| {
            let o = run_multi(case);
            report(&prop, case, o, true)
        }),
        cases: if q { 4 } else { 120 },
        workers: 4,
        max_shrink_iters: 20,
        shrink_secs: 600,
    };
    run_search(ctx, &s);
}

//! C12: file reclamation never removes entries that are still unconsumed.
//!
//! A case fills a whole WAL file (100 blocks) in one lifetime and moves every topic's active block
//! into the second file, consumes the topics to generated degrees (full drains, partial reads,
//! peeks, repeated empty polls), waits long enough for the background reclaimer (1000 ticks of a
//! 1 ms fsync schedule), and then - in a fresh process - demands exactly the model's unconsumed
//! entries. The verdict is semantic (FIFO model); the tracker view (H3) and the directory listing
//! only label cases.
use super::*;
use crate::proto::*;
use proptest::prelude::*;
use serde::{Deserialize, Serialize};

#[derive(Clone, Debug, Serialize, Deserialize, PartialEq, Eq, Hash)]
pub enum Consume {
    /// drain completely, then `polls` more empty polls
    Full { polls: u8 },
    /// consume about num/256 of the topic's entries
    Partial { num: u8 },
    /// only peeks
    PeekOnly { n: u8 },
    Nothing,
    /// consume everything this topic stores in the first file except the last `leave` entries
    /// (each in a block of its own), then peek `peeks` times at the first entry left
    UpToFileEnd { leave: u8, peeks: u8 },
}

#[derive(Clone, Debug, Serialize, Deserialize, PartialEq, Eq, Hash)]
pub struct ReclaimCase {
    pub cfg: Cfg,
    /// (topic selector, blocks) in allocation order; normalised so that > 100 blocks are
    /// allocated and every topic allocates a block after the 100th
    pub fills: Vec<(u16, u8)>,
    pub consume: Vec<Consume>,
    /// generated reads/peeks executed after the per-topic plans
    pub extra: Vec<AbsOp>,
    /// second phase after the wait: more appends (blocks) and reads before the restart
    pub phase2: Vec<AbsOp>,
    pub restart_before_final_drain: bool,
    pub drain: Vec<DrainStep>,
    /// boundary focus: the topic of the first fill keeps exactly its last entry of the first
    /// file (and peeks at it `n` times) while every other topic is drained completely
    #[serde(default)]
    pub focus_peeks: Option<u8>,
}

fn consume_strategy() -> BoxedStrategy<Consume> {
    prop_oneof![
        6 => (0u8..6).prop_map(|polls| Consume::Full { polls }),
        3 => any::<u8>().prop_map(|num| Consume::Partial { num }),
        1 => (1u8..6).prop_map(|n| Consume::PeekOnly { n }),
        1 => Just(Consume::Nothing),
        4 => (prop_oneof![3 => Just(1u8), 1 => 0u8..4], 0u8..5).prop_map(|(leave, peeks)| Consume::UpToFileEnd { leave, peeks }),
    ]
    .boxed()
}

pub fn reclaim_strategy() -> BoxedStrategy<ReclaimCase> {
    let read_mix = Mix { append: 0, batch: 0, batch_many: 0, read_next: 10, batch_read: 10, peek: 10, count: 3, ..Mix::consuming() };
    let p2_mix = Mix { append: 6, batch: 2, batch_many: 0, read_next: 10, batch_read: 10, peek: 6, count: 2, max_batch: 2, ..Mix::consuming() };
    (
        (mode_strategy(), any::<bool>(), topics_strategy(5)).prop_map(|(mode, fd, topics)| Cfg { mode, fsync: Fsync::Ms(1), fd, topics }),
        proptest::collection::vec((any::<u16>(), 1u8..40), 3..14),
        proptest::collection::vec(consume_strategy(), 5),
        proptest::collection::vec(op_strategy(&read_mix, SizeProfile::Tiny), 0..16),
        proptest::collection::vec(op_strategy(&p2_mix, SizeProfile::Block), 0..10),
        prop_oneof![3 => Just(true), 1 => Just(false)],
        drain_strategy(),
        proptest::option::weighted(0.4, 0u8..5),
    )
        .prop_map(|(cfg, fills, consume, extra, phase2, restart_before_final_drain, drain, focus_peeks)| {
            // the extra reads would consume the kept entry: drop them in focused cases
            let extra = if focus_peeks.is_some() { Vec::new() } else { extra };
            ReclaimCase { cfg, fills, consume, extra, phase2, restart_before_final_drain, drain, focus_peeks }
        })
        .boxed()
}

/// (topic index, blocks) list with exactly the properties the scenario needs.
fn normalise_fills(case: &ReclaimCase, nt: usize) -> Vec<(u32, u32)> {
    let mut v: Vec<(u32, u32)> = Vec::new();
    let mut total = 0u32;
    for (t, n) in &case.fills {
        if total >= 100 {
            break;
        }
        let n = (*n as u32).min(100 - total).max(1);
        v.push((idx(*t, nt) as u32, n));
        total += n;
    }
    // top up to 100 blocks on the first topic of the list
    if total < 100 {
        let t = v.first().map(|x| x.0).unwrap_or(0);
        v.push((t, 100 - total));
    }
    // every topic that owns a block in the first file moves its active block to the second
    // file: one more block each (a topic that has none yet stays out of the first file)
    let mut owners: Vec<u32> = v.iter().map(|x| x.0).collect();
    owners.sort();
    owners.dedup();
    for t in owners {
        v.push((t, 1));
    }
    v
}

fn wal_files(run: &mut Run) -> Option<usize> {
    match run.child.as_mut()?.call(&Op::Ls) {
        Resp::Ls(v) => Some(
            v.iter()
                .filter(|(n, _, d)| !d && n.rsplit('/').next().map(|b| !b.is_empty() && b.bytes().all(|c| c.is_ascii_digit())).unwrap_or(false))
                .count(),
        ),
        _ => None,
    }
}

fn wal_names(run: &mut Run) -> Option<BTreeSet<String>> {
    match run.child.as_mut()?.call(&Op::Ls) {
        Resp::Ls(v) => Some(
            v.iter()
                .filter(|(n, _, d)| !d && n.rsplit('/').next().map(|b| !b.is_empty() && b.bytes().all(|c| c.is_ascii_digit())).unwrap_or(false))
                .map(|(n, _, _)| n.clone())
                .collect(),
        ),
        _ => None,
    }
}

fn file_states(run: &mut Run) -> Vec<FileState> {
    match run.child.as_mut().map(|c| c.call(&Op::FileStates)) {
        Some(Resp::FileStates(v)) => v,
        _ => Vec::new(),
    }
}

pub fn run_reclaim(case: &ReclaimCase, excl: &BTreeSet<String>) -> Outcome {
    let mut opts = RunOpts::default();
    opts.exclude = excl.clone();
    let mut run = match Run::new(&case.cfg, opts) {
        Ok(r) => r,
        Err(e) => {
            let mut o = Outcome::default();
            o.inconclusive = Some(e);
            return o;
        }
    };
    let nt = run.model.topics.len();
    let res = (|| -> Check {
        // 1) fill the first file. Every one of these appends needs a block of its own (two do
        // not fit into one), so the i-th append overall lives in block i and the first 100
        // appends are exactly the content of the first WAL file.
        let mut in_first_file = vec![0usize; nt];
        let mut appended_total = 0usize;
        for (t, n) in normalise_fills(case, nt) {
            for _ in 0..n {
                let seq = run.seq;
                run.seq += 1;
                run.apply(&Step::Do(Op::Append { inst: 0, t, seq, len: 5 * MIB + 300 * 1024 }))?;
                appended_total += 1;
                if appended_total <= 100 {
                    in_first_file[t as usize] += 1;
                }
            }
        }
        let fs = file_states(&mut run);
        if fs.iter().any(|f| f.fully) {
            run.out.features.insert("file_fully_allocated".into());
        }
        if fs.iter().any(|f| f.fully && f.locked == 0) {
            run.out.features.insert("full_file_has_no_active_block".into());
        }
        // 2) per-topic consumption plans
        let mut k = 0usize;
        let victim = case.fills.first().map(|f| idx(f.0, nt) as u32).unwrap_or(0);
        for t in 0..nt as u32 {
            let total = run.model.topics[t as usize].appended.len();
            let plan = match case.focus_peeks {
                Some(p) if t == victim => Consume::UpToFileEnd { leave: 1, peeks: p },
                Some(_) => Consume::Full { polls: 1 },
                None => case.consume.get(t as usize).cloned().unwrap_or(Consume::Nothing),
            };
            match plan {
                Consume::Full { polls } => {
                    run.drain_one(t, &case.drain, &mut k)?;
                    for i in 0..polls {
                        let op = if i % 2 == 0 { Op::ReadNext { inst: 0, t, ck: true } } else { Op::BatchRead { inst: 0, t, budget: 1 << 20, ck: true, off: None } };
                        run.apply(&Step::Do(op))?;
                    }
                    if total > 0 {
                        run.out.features.insert("topic_fully_drained".into());
                    }
                    if polls > 0 {
                        run.out.features.insert("empty_polls_after_drain".into());
                    }
                }
                Consume::Partial { num } => {
                    let want = (total * num as usize) / 256;
                    let mut got = 0usize;
                    let mut guard = total + 10;
                    while got < want && guard > 0 {
                        guard -= 1;
                        let before = run.model.topics[t as usize].consumed_max();
                        let op = if guard % 3 == 0 { Op::BatchRead { inst: 0, t, budget: 11 << 20, ck: true, off: None } } else { Op::ReadNext { inst: 0, t, ck: true } };
                        run.apply(&Step::Do(op))?;
                        got += run.model.topics[t as usize].consumed_max() - before;
                    }
                    if total > 0 && run.model.topics[t as usize].avail_min() > 0 {
                        run.out.features.insert("topic_partially_consumed".into());
                    }
                }
                Consume::PeekOnly { n } => {
                    for i in 0..n {
                        let op = if i % 2 == 0 { Op::ReadNext { inst: 0, t, ck: false } } else { Op::BatchRead { inst: 0, t, budget: 12 << 20, ck: false, off: None } };
                        run.apply(&Step::Do(op))?;
                    }
                    if total > 0 {
                        run.out.features.insert("topic_only_peeked".into());
                    }
                }
                Consume::UpToFileEnd { leave, peeks } => {
                    let want = in_first_file[t as usize].saturating_sub(leave as usize);
                    let mut guard = total + 10;
                    while run.model.topics[t as usize].consumed_max() < want && guard > 0 {
                        guard -= 1;
                        run.apply(&Step::Do(Op::ReadNext { inst: 0, t, ck: true }))?;
                    }
                    for i in 0..peeks {
                        let op = if i % 2 == 0 { Op::ReadNext { inst: 0, t, ck: false } } else { Op::BatchRead { inst: 0, t, budget: 12 << 20, ck: false, off: None } };
                        run.apply(&Step::Do(op))?;
                    }
                    if total > 0 && leave > 0 {
                        run.out.features.insert("stopped_just_before_end_of_first_file".into());
                        if peeks > 0 {
                            run.out.features.insert("peeked_at_last_unconsumed_block_of_first_file".into());
                        }
                    }
                }
                Consume::Nothing => {
                    if total > 0 {
                        run.out.features.insert("topic_untouched".into());
                    }
                }
            }
        }
        for aop in &case.extra {
            for s in run.expand(aop) {
                run.apply(&s)?;
            }
        }
        let unconsumed_before: usize = run.model.topics.iter().map(|t| t.avail_min()).sum();
        // 3) let the reclaimer run (1000 ticks of 1 ms + slack)
        let before = wal_files(&mut run);
        let names_before_wait = wal_names(&mut run);
        let fs = file_states(&mut run);
        if fs.iter().any(|f| f.fully && f.locked == 0 && f.total > 0 && f.checkpointed >= f.total) {
            run.out.features.insert("file_eligible_for_deletion".into());
        }
        run.apply(&Step::Do(Op::Sleep { ms: 1700 }))?;
        let after = wal_files(&mut run);
        let mut deleted = false;
        if let (Some(b), Some(a)) = (before, after) {
            if a < b {
                deleted = true;
                run.out.features.insert("wal_file_deleted".into());
                // direct oracle: the reclaimed file is the first one (only it is fully
                // allocated); everything stored in it must have been consumed
                for t in 0..nt {
                    let c = run.model.topics[t].consumed_min();
                    if c < in_first_file[t] {
                        return viol(
                            Oracle::Content,
                            format!(
                                "a WAL file was reclaimed ({} -> {} files) while topic {} had consumed only {} of the {} entries stored in the first file",
                                b, a, t, c, in_first_file[t]
                            ),
                        );
                    }
                }
                if unconsumed_before > 0 {
                    run.out.features.insert("deleted_while_other_entries_unconsumed".into());
                }
            } else if unconsumed_before > 0 {
                run.out.features.insert("file_kept_with_unconsumed_entries".into());
            }
        }
        // 4) second phase: the instance keeps working after a deletion
        for aop in &case.phase2 {
            for s in run.expand(aop) {
                run.apply(&s)?;
            }
        }
        // the reclaimer may have run late (loaded machine): look again right before the restart
        if let (Some(seen), Some(now)) = (&names_before_wait, wal_names(&mut run)) {
            if seen.iter().any(|n| !now.contains(n)) && !deleted {
                deleted = true;
                run.out.features.insert("wal_file_deleted".into());
                run.out.features.insert("wal_file_deleted_late".into());
                for t in 0..nt {
                    let c = run.model.topics[t].consumed_min();
                    if c < in_first_file[t] {
                        return viol(
                            Oracle::Content,
                            format!("a WAL file was reclaimed while topic {} had consumed only {} of the {} entries stored in the first file", t, c, in_first_file[t]),
                        );
                    }
                }
            }
        }
        // 5) everything unconsumed must still be there - in this process or after a restart
        let no_restart = deleted && run.opts.exclude.contains("restart-after-file-reclaimed");
        if no_restart {
            // open finding C12-positions-shift-after-reclaim: see known_findings.json
            *run.out.excluded.entry("restart-after-file-reclaimed".into()).or_insert(0) += 1;
            run.drain(&case.drain)?;
        } else if case.restart_before_final_drain {
            run.apply(&Step::ReopenFresh)?;
            run.out.features.insert("restart_before_final_drain".into());
        }
        if !no_restart {
            run.drain(&case.drain)?;
            if !case.restart_before_final_drain {
                run.apply(&Step::ReopenFresh)?;
                run.drain(&case.drain)?;
            }
        }
        // still usable
        for t in 0..nt as u32 {
            let seq = 2_000_000 + t as u64;
            run.apply(&Step::Do(Op::Append { inst: 0, t, seq, len: 77 }))?;
            run.apply(&Step::Do(Op::ReadNext { inst: 0, t, ck: true }))?;
        }
        Ok(())
    })();
    let inconclusive = run.out.inconclusive.clone();
    let mut out = run.finish();
    if let Err(v) = res {
        if inconclusive.is_some() {
            out.inconclusive = inconclusive;
        } else {
            out.violation = Some(v);
        }
    }
    out
}

fn nontrivial(f: &BTreeSet<String>) -> bool {
    f.contains("file_fully_allocated") && (f.contains("wal_file_deleted") || f.contains("file_kept_with_unconsumed_entries") || f.contains("file_eligible_for_deletion"))
}

fn report(prop: &str, case: &ReclaimCase, out: Outcome, excl: &BTreeSet<String>) -> CaseReport {
    let mut rep = CaseReport::default();
    rep.features = out.features.clone();
    rep.excluded = out.excluded.clone();
    rep.inconclusive = out.inconclusive.clone();
    rep.nontrivial = out.inconclusive.is_none() && nontrivial(&out.features);
    let n = out.trace.len();
    if let Some(v) = &out.violation {
        let body = json!({
            "kind": "reclaim",
            "property": prop,
            "case": case,
            "exclude": excl,
            "message": format!("[{:?}] {}", v.oracle, v.msg),
            "trace_tail": out.trace[n.saturating_sub(40)..].to_vec(),
        });
        rep.violation = Some((format!("[{:?}] {}", v.oracle, v.msg), body));
    }
    rep.sample = Some(json!({
        "cfg": case.cfg,
        "fills": case.fills,
        "consume": case.consume,
        "concrete_steps": out.n_steps,
        "features": out.features,
        "last_steps": out.trace[n.saturating_sub(6)..].to_vec(),
    }));
    rep
}

pub fn replay(body: &Value) -> Result<Option<String>, String> {
    let case: ReclaimCase = serde_json::from_value(body.get("case").cloned().ok_or("no case")?).map_err(|e| e.to_string())?;
    let mut excl = BTreeSet::new();
    if let Some(a) = body.get("exclude").and_then(|x| x.as_array()) {
        for s in a {
            if let Some(s) = s.as_str() {
                excl.insert(s.to_string());
            }
        }
    }
    let out = run_reclaim(&case, &excl);
    if let Some(i) = out.inconclusive {
        return Err(i);
    }
    Ok(out.violation.map(|v| format!("[{:?}] {}", v.oracle, v.msg)))
}

pub fn c12(ctx: &Ctx) {
    regress_and_probes(ctx);
    let excl = exclusions_for("C12");
    let q = ctx.tier == Tier::Quick;
    let prop = ctx.prop.clone();
    let s = Search {
        name: "fill-consume-wait-restart".to_string(),
        strategy: Box::new(reclaim_strategy),
        run: Box::new(move |case: &ReclaimCase| {
            let out = run_reclaim(case, &excl);
            report(&prop, case, out, &excl)
        }),
        cases: if q { 16 } else { 600 },
        workers: 8,
        max_shrink_iters: 40,
        shrink_secs: 600,
    };
    run_search(ctx, &s);
}

//! E2 / C10: with FsyncSchedule::SyncEach, acknowledged appends and (StrictlyAtOnce) consumption
//! survive power loss. A traced run (H1) records every foreground I/O event with its bytes; for
//! a loss point k the directory is rebuilt from the trace prefix under the model "only what was
//! explicitly synced is durable; every other write / file creation / rename is kept or lost
//! independently", opened by a fresh process and drained.
use super::crash::{explain, inflight_entries, CrashObs, Tail};
use super::*;
use crate::child::*;
use crate::proto::*;
use proptest::prelude::*;
use serde::{Deserialize, Serialize};

#[derive(Clone, Debug, Deserialize)]
struct TEv {
    n: u64,
    site: String,
    path: String,
    #[serde(default)]
    aux: String,
    #[serde(default)]
    off: u64,
    #[serde(default)]
    len: u64,
    #[serde(default)]
    data: String,
}

#[derive(Clone, Debug)]
enum Item {
    Create { path: String },
    SetLen { path: String, len: u64 },
    Write { path: String, off: u64, data: Vec<u8> },
    /// whole-file replacement content (tmp file written by fs::write)
    WriteFile { path: String, data: Vec<u8> },
    Rename { from: String, to: String },
}

#[derive(Clone, Debug)]
struct Tracked {
    item: Item,
    durable: bool,
}

fn unhex(s: &str) -> Option<Vec<u8>> {
    if s == "-" {
        return None;
    }
    let b = s.as_bytes();
    let mut v = Vec::with_capacity(b.len() / 2);
    let h = |c: u8| -> u8 {
        match c {
            b'0'..=b'9' => c - b'0',
            b'a'..=b'f' => c - b'a' + 10,
            _ => 0,
        }
    };
    for i in 0..b.len() / 2 {
        v.push(h(b[2 * i]) << 4 | h(b[2 * i + 1]));
    }
    Some(v)
}

fn parent(p: &str) -> String {
    std::path::Path::new(p).parent().map(|x| x.to_string_lossy().into_owned()).unwrap_or_default()
}

/// items of the trace prefix 1..=k with their durability at that point; None = a write without
/// recorded bytes (too large)
fn items_upto(evs: &[TEv], k: u64) -> Option<Vec<Tracked>> {
    let mut v: Vec<Tracked> = Vec::new();
    for e in evs.iter().filter(|e| e.n >= 1 && e.n <= k) {
        match e.site.as_str() {
            "file_create" => v.push(Tracked { item: Item::Create { path: e.path.clone() }, durable: false }),
            "file_set_len" => v.push(Tracked { item: Item::SetLen { path: e.path.clone(), len: 100 * 10 * 1024 * 1024 }, durable: false }),
            "file_fsync" | "flush" => {
                for t in v.iter_mut() {
                    match &t.item {
                        Item::SetLen { path, .. } | Item::Write { path, .. } if *path == e.path => t.durable = true,
                        _ => {}
                    }
                }
            }
            "dir_fsync" => {
                for t in v.iter_mut() {
                    match &t.item {
                        Item::Create { path } if parent(path) == e.path => t.durable = true,
                        Item::Rename { to, .. } if parent(to) == e.path => t.durable = true,
                        _ => {}
                    }
                }
            }
            "block_write" | "batch_sqe" | "zero_range" => {
                let data = match unhex(&e.data) {
                    Some(d) => d,
                    None => {
                        // too large for the trace: the bytes are still in the traced run's file,
                        // provided no later event wrote into the same range
                        let overlapped = evs.iter().any(|x| x.n > e.n && x.path == e.path && matches!(x.site.as_str(), "block_write" | "batch_sqe" | "zero_range") && x.off < e.off + e.len && e.off < x.off + x.len);
                        if overlapped {
                            return None;
                        }
                        use std::os::unix::fs::FileExt;
                        let f = std::fs::File::open(&e.path).ok()?;
                        let mut buf = vec![0u8; e.len as usize];
                        f.read_exact_at(&mut buf, e.off).ok()?;
                        buf
                    }
                };
                if data.len() as u64 != e.len {
                    return None;
                }
                v.push(Tracked { item: Item::Write { path: e.path.clone(), off: e.off, data }, durable: false });
            }
            "index_tmp_write" => {
                let data = unhex(&e.data)?;
                v.push(Tracked { item: Item::Create { path: e.path.clone() }, durable: false });
                v.push(Tracked { item: Item::WriteFile { path: e.path.clone(), data }, durable: false });
            }
            "index_tmp_fsync" => {
                for t in v.iter_mut() {
                    if let Item::WriteFile { path, .. } = &t.item {
                        if *path == e.path {
                            t.durable = true;
                        }
                    }
                }
            }
            "index_rename" => v.push(Tracked { item: Item::Rename { from: e.path.clone(), to: e.aux.clone() }, durable: false }),
            _ => {}
        }
    }
    Some(v)
}

/// Rebuild the directory: `keep[i]` decides the fate of the i-th non-durable item.
fn materialise(items: &[Tracked], keep: &dyn Fn(usize) -> bool, src_root: &str, dst_root: &str) -> std::io::Result<()> {
    use std::collections::HashMap;
    use std::os::unix::fs::FileExt;
    let map = |p: &str| -> String { p.replacen(src_root, dst_root, 1) };
    // logical file table: path -> (exists, len, writes)
    struct F {
        len: u64,
        writes: Vec<(u64, Vec<u8>)>,
        whole: Option<Vec<u8>>,
    }
    let mut files: HashMap<String, F> = HashMap::new();
    let mut u = 0usize;
    for t in items {
        let kept = if t.durable {
            true
        } else {
            let k = keep(u);
            u += 1;
            k
        };
        if !kept {
            continue;
        }
        match &t.item {
            Item::Create { path } => {
                files.insert(path.clone(), F { len: 0, writes: Vec::new(), whole: None });
            }
            Item::SetLen { path, len } => {
                if let Some(f) = files.get_mut(path) {
                    f.len = *len;
                }
            }
            Item::Write { path, off, data } => {
                if let Some(f) = files.get_mut(path) {
                    f.writes.push((*off, data.clone()));
                }
            }
            Item::WriteFile { path, data } => {
                if let Some(f) = files.get_mut(path) {
                    f.whole = Some(data.clone());
                }
            }
            Item::Rename { from, to } => {
                if let Some(f) = files.remove(from) {
                    files.insert(to.clone(), f);
                }
            }
        }
    }
    for (path, f) in files {
        let p = map(&path);
        if let Some(dir) = std::path::Path::new(&p).parent() {
            std::fs::create_dir_all(dir)?;
        }
        let file = std::fs::OpenOptions::new().create(true).write(true).truncate(true).open(&p)?;
        if let Some(w) = &f.whole {
            file.write_all_at(w, 0)?;
        }
        if f.len > 0 {
            file.set_len(f.len)?;
        }
        for (off, data) in &f.writes {
            // a write beyond the (lost) size extends the file, like on a real file system
            file.write_all_at(data, *off)?;
        }
    }
    Ok(())
}

#[derive(Clone, Debug, Serialize, Deserialize, PartialEq, Eq, Hash)]
pub struct PowerCase {
    pub base: Case,
    /// seeds for the sampled keep/drop subsets
    pub subsets: Vec<u64>,
}

pub fn power_strategy(p: SizeProfile) -> BoxedStrategy<PowerCase> {
    let mix = Mix { append: 34, batch: 14, batch_many: 0, read_next: 26, batch_read: 10, max_batch: 4, ..Mix::consuming() };
    let n = if p == SizeProfile::Tiny { 3..15usize } else { 3..9usize };
    (
        (mode_strategy(), any::<bool>(), topics_strategy(2)).prop_map(|(mode, fd, topics)| Cfg { mode, fsync: Fsync::Each, fd, topics }),
        proptest::collection::vec(op_strategy(&mix, p), n),
        drain_strategy(),
        proptest::collection::vec(any::<u64>(), 6),
    )
        .prop_map(|(cfg, ops, drain, subsets)| PowerCase { base: Case { cfg, ops, drain }, subsets })
        .boxed()
}

pub struct PowerObs {
    pub violation: Option<(String, Value)>,
    pub features: BTreeSet<String>,
    pub inconclusive: Option<String>,
    pub evaluated: u64,
    pub nontrivial: u64,
    pub sample: Option<Value>,
}

fn splitmix(z: u64) -> u64 {
    crate::engine::splitmix(z)
}

/// One workload: traced run, then loss points x subsets.
pub fn power_case(prop: &str, case: &PowerCase, max_points: usize, all_subsets_upto: usize) -> PowerObs {
    let mut o = PowerObs { violation: None, features: BTreeSet::new(), inconclusive: None, evaluated: 0, nontrivial: 0, sample: None };
    // ---- traced run (the directory of this run is the source of paths)
    let mut opts = RunOpts::default();
    let mut run = Run::new_lazy(&case.base.cfg, opts.clone());
    let trace_path = run.scratch.path.join("h1-trace.jsonl");
    opts.spawn.env.push(("WVERIF_PLAN".into(), format!("trace={}", trace_path.to_string_lossy())));
    run.opts = opts;
    match run.start() {
        Ok(Resp::Ok) => {}
        Ok(other) => {
            o.inconclusive = Some(format!("open: {}", other.short()));
            return o;
        }
        Err(e) => {
            o.inconclusive = Some(e);
            return o;
        }
    }
    let open_events = run.io_count().unwrap_or(0);
    let mut ranges: Vec<(u64, u64)> = Vec::new();
    let mut models: Vec<InstModel> = Vec::new(); // model *before* each step
    let mut steps: Vec<Step> = Vec::new();
    let mut last = open_events;
    let mut diverged = false;
    'w: for aop in &case.base.ops {
        for s in run.expand(aop) {
            models.push(run.model.clone());
            let r = run.apply(&s);
            let now = run.io_count().unwrap_or(last);
            ranges.push(if now > last { (last + 1, now) } else { (0, 0) });
            steps.push(s);
            last = now;
            if r.is_err() {
                if run.out.inconclusive.is_some() {
                    o.inconclusive = run.out.inconclusive.clone();
                    let _ = run.finish();
                    return o;
                }
                diverged = true;
                break 'w;
            }
        }
    }
    let final_model = run.model.clone();
    let src_root = run.scratch.s();
    let evs: Vec<TEv> = std::fs::read_to_string(&trace_path).map(|s| s.lines().filter_map(|l| serde_json::from_str::<TEv>(l).ok()).collect()).unwrap_or_default();
    let topics_init = run.init.clone();
    let cfg = case.base.cfg.clone();
    // end the traced process but keep its directory: large writes are read back from it
    if let Some(c) = run.child.take() {
        let _ = c.exit(true);
    }
    let _keep_traced_dir = run;
    if diverged {
        o.features.insert("traced_run_diverged".into());
        return o;
    }
    let total = last;
    if total <= open_events {
        return o;
    }
    // ---- loss points: after event k, k in open_events..=total (stratified sample)
    let h0 = str_hash(&serde_json::to_string(case).unwrap_or_default());
    let mut points: Vec<u64> = (open_events..=total).collect();
    if points.len() > max_points {
        let mut keyed: Vec<(u64, u64)> = points.iter().map(|k| (splitmix(h0 ^ *k), *k)).collect();
        keyed.sort();
        keyed.truncate(max_points - 1);
        points = keyed.into_iter().map(|x| x.1).collect();
        points.push(total);
        points.sort();
        points.dedup();
    }
    for k in points {
        let Some(items) = items_upto(&evs, k) else {
            o.features.insert("write_without_recorded_bytes".into());
            continue;
        };
        let nun = items.iter().filter(|t| !t.durable).count();
        // the step in flight: first step whose last event is > k
        let inflight_idx = ranges.iter().position(|(a, b)| *a != 0 && *b > k);
        let model = match inflight_idx {
            Some(i) => models[i].clone(),
            None => final_model.clone(),
        };
        let inflight_op = inflight_idx.and_then(|i| match &steps[i] {
            Step::Do(op) => Some(op.clone()),
            _ => None,
        });
        // subsets: none kept, all kept, sampled (all of them when few)
        let mut masks: Vec<Option<u64>> = vec![None, Some(u64::MAX)];
        if nun > 0 && nun <= all_subsets_upto {
            masks = (0..(1u64 << nun)).map(Some).collect();
            masks[0] = None;
        } else if nun > 0 {
            for s in &case.subsets {
                masks.push(Some(splitmix(*s ^ k) | 1 << 63));
            }
        }
        for mask in masks {
            let keep = |i: usize| -> bool {
                match mask {
                    None => false,
                    Some(m) if m == u64::MAX => true,
                    Some(m) => {
                        if nun <= 62 {
                            (m >> (i % 63)) & 1 == 1
                        } else {
                            splitmix(m ^ i as u64) & 1 == 1
                        }
                    }
                }
            };
            let dst = Scratch::new(false);
            if let Err(e) = materialise(&items, &keep, &src_root, &dst.s()) {
                o.inconclusive = Some(format!("materialise: {}", e));
                continue;
            }
            // marker files are not part of this property
            let mut init = topics_init.clone();
            init.base = dst.s();
            let mut child = match ChildProc::spawn(&init, &SpawnOpts::default()) {
                Ok(c) => c,
                Err(e) => {
                    o.inconclusive = Some(format!("spawn: {}", e));
                    continue;
                }
            };
            let open = Op::Open { inst: 0, dir: DATA_DIR.to_string(), key: Some(KEY.to_string()), mode: cfg.mode.clone(), fsync: cfg.fsync.clone(), ctor: Ctor::Builder };
            let r = child.call(&open);
            o.evaluated += 1;
            let dropped_some = nun > 0 && mask != Some(u64::MAX);
            if dropped_some {
                o.nontrivial += 1;
            }
            let mut obs = CrashObs {
                died_step: inflight_idx,
                completed: inflight_idx.is_none(),
                died_in_open: false,
                model: model.clone(),
                inflight: inflight_op.clone(),
                recovered: Err("not opened".into()),
                trace: Vec::new(),
                harness_problem: None,
                unexpected_death: None,
                diverged: None,
                batch_consumed: vec![false; model.topics.len()],
                rn_positions: vec![Vec::new(); model.topics.len()],
            };
            let mut msg: Option<String> = None;
            match r {
                Resp::Ok => {
                    // drain
                    let mut all = Vec::new();
                    let mut bad: Option<String> = None;
                    for t in 0..model.topics.len() as u32 {
                        let mut got: Vec<Ent> = Vec::new();
                        let mut empties = 0;
                        let mut guard = 5000;
                        while empties < 2 && guard > 0 {
                            guard -= 1;
                            match child.call(&Op::ReadNext { inst: 0, t, ck: true }) {
                                Resp::Some(e) => {
                                    got.push(e);
                                    empties = 0;
                                }
                                Resp::None => empties += 1,
                                other => {
                                    bad = Some(format!("read_next after power loss: {}", other.short()));
                                    break;
                                }
                            }
                        }
                        all.push(got);
                    }
                    match bad {
                        Some(b) => msg = Some(b),
                        None => obs.recovered = Ok(all),
                    }
                }
                Resp::Timeout => {
                    o.inconclusive = Some("open after power loss timed out".into());
                    continue;
                }
                other => msg = Some(format!("opening the directory after the power loss failed: {}", other.short())),
            }
            let _ = child.exit(true);
            if msg.is_none() {
                if let Ok(rec) = &obs.recovered {
                    let strict = matches!(cfg.mode, Mode::Strict);
                    let mut cache = std::collections::HashMap::new();
                    for (ti, d) in rec.iter().enumerate() {
                        let t = ti as u32;
                        let tm = &model.topics[ti];
                        let inflight = inflight_entries(&obs, t, &mut cache);
                        let consumed = tm.consumed_max();
                        let reading = matches!(&obs.inflight, Some(Op::ReadNext { t: ot, ck: true, .. }) | Some(Op::BatchRead { t: ot, ck: true, off: None, .. }) if *ot == t);
                        let (lo, hi) = if strict { (consumed, if reading { tm.appended.len() } else { consumed }) } else { (0, if reading { tm.appended.len() } else { consumed }) };
                        if explain(d, &tm.appended, &inflight, lo, hi, Tail::Subsequence).is_none() {
                            let loose = explain(d, &tm.appended, &inflight, 0, tm.appended.len(), Tail::Subsequence);
                            msg = Some(match loose {
                                Some((c, _)) if c < consumed => format!(
                                    "topic {}: after the power loss the StrictlyAtOnce consumer resumes at entry #{} although consuming reads had returned {} entries (consumption that had been acknowledged is lost)",
                                    t, c, consumed
                                ),
                                Some((c, _)) => format!("topic {}: after the power loss the consumer resumes at entry #{}, skipping unconsumed entries (consumed {})", t, c, consumed),
                                None => format!(
                                    "topic {}: after the power loss the topic yields {} entries; {} appends had been acknowledged, {} consumed - an acknowledged append is missing or foreign data appeared",
                                    t,
                                    d.len(),
                                    tm.appended.len(),
                                    consumed
                                ),
                            });
                            break;
                        }
                    }
                }
            }
            if o.sample.is_none() || (dropped_some && o.evaluated % 17 == 0) {
                o.sample = Some(json!({
                    "cfg": cfg, "workload_steps": steps.len(), "io_events": total, "loss_after_event": k,
                    "unsynced_items": nun, "kept": match mask { None => "none".to_string(), Some(m) if m == u64::MAX => "all".to_string(), Some(m) => format!("mask {:x}", m) },
                    "in_flight": inflight_op.as_ref().map(|x| format!("{:?}", x).chars().take(100).collect::<String>()),
                }));
            }
            if let Some(m) = msg {
                let unsynced: Vec<String> = items.iter().filter(|t| !t.durable).map(|t| format!("{:?}", t.item).chars().take(120).collect()).collect();
                let kept: Vec<bool> = (0..nun).map(|i| keep(i)).collect();
                let body = json!({
                    "kind": "power", "property": prop, "case": case, "loss_after_event": k,
                    "mask": mask, "message": m, "unsynced_items": unsynced, "kept": kept,
                    "in_flight": inflight_op.as_ref().map(|x| format!("{:?}", x)),
                });
                o.violation = Some((format!("power loss after I/O event {} ({} unsynced items, kept {:?}): {}", k, nun, kept, m), body));
                return o;
            }
        }
        if nun > 0 {
            o.features.insert("loss_point_with_unsynced_items".into());
        }
        if items.iter().any(|t| !t.durable && matches!(t.item, Item::Rename { .. })) {
            o.features.insert("unsynced_rename".into());
        }
    }
    o
}

pub fn replay(body: &Value) -> Result<Option<String>, String> {
    let case: PowerCase = serde_json::from_value(body.get("case").cloned().ok_or("no case")?).map_err(|e| e.to_string())?;
    // the replay re-runs the whole case exhaustively over small subsets
    let o = power_case("C10", &case, 400, 6);
    if let Some(i) = o.inconclusive {
        return Err(i);
    }
    Ok(o.violation.map(|v| v.0))
}

pub fn c10(ctx: &Ctx) {
    regress_and_probes(ctx);
    let q = ctx.tier == Tier::Quick;
    let prop = ctx.prop.clone();
    let (pts, allsub) = if q { (10usize, 3usize) } else { (400usize, 10usize) };
    // block-sized payloads (entries aimed at exact block ends, rotations): fewer, heavier cases
    {
        let prop = ctx.prop.clone();
        let s = Search {
            name: "synceach-power-loss-block".to_string(),
            strategy: Box::new(|| power_strategy(SizeProfile::Block)),
            run: Box::new(move |case: &PowerCase| {
                let o = power_case(&prop, case, if q { 8 } else { 200 }, if q { 2 } else { 8 });
                let mut rep = CaseReport::default();
                rep.features = o.features;
                rep.features.insert("block_sized_payloads".into());
                rep.inconclusive = o.inconclusive;
                rep.sub_evaluations = o.evaluated.saturating_sub(1);
                rep.sub_nontrivial = o.nontrivial;
                rep.sample = o.sample;
                rep.violation = o.violation;
                rep
            }),
            cases: if q { 24 } else { 600 },
            workers: cores(),
            max_shrink_iters: 30,
            shrink_secs: 300,
        };
        run_search(ctx, &s);
    }
    let s = Search {
        name: "synceach-power-loss".to_string(),
        strategy: Box::new(|| power_strategy(SizeProfile::Tiny)),
        run: Box::new(move |case: &PowerCase| {
            let o = power_case(&prop, case, pts, allsub);
            let mut rep = CaseReport::default();
            rep.features = o.features;
            rep.inconclusive = o.inconclusive;
            rep.sub_evaluations = o.evaluated.saturating_sub(1);
            rep.sub_nontrivial = o.nontrivial;
            rep.sample = o.sample;
            rep.violation = o.violation;
            rep
        }),
        cases: if q { 60 } else { 2500 },
        workers: cores(),
        max_shrink_iters: 40,
        shrink_secs: 300,
    };
    run_search(ctx, &s);
}

//! C04 fault engine (H1): injected I/O failures inside appends and batch appends of generated
//! workloads. A failing call must return Err (never panic) and leave no trace: the FIFO model
//! simply does not record it, and everything that follows - reads, later appends, a restart -
//! must agree with the model.
use super::crash::{counting_run, CountRun, Event};
use super::*;
use crate::proto::*;
use proptest::prelude::*;

const WRITE_SITES: [&str; 2] = ["block_write", "batch_sqe"];
const FAULT_SITES: [&str; 8] = ["block_write", "batch_sqe", "batch_submit", "flush", "file_create", "file_set_len", "file_fsync", "dir_fsync"];

fn is_append_step(s: &Step) -> bool {
    matches!(s, Step::Do(Op::Append { .. }) | Step::Do(Op::Batch { .. }))
}

fn splitmix(z: u64) -> u64 {
    crate::engine::splitmix(z)
}

/// Plans for one event: an errno failure, and for data writes on the io_uring path also a short
/// completion.
fn plans_for(e: &Event, h: u64) -> Vec<String> {
    let mut v = Vec::new();
    let errno = if h % 2 == 0 { 5 } else { 28 }; // EIO / ENOSPC
    v.push(format!("fail@{}#{}={}", e.site, e.occ, errno));
    if e.site == "batch_sqe" && e.len > 1 {
        let n = match splitmix(h ^ 3) % 3 {
            0 => 0,
            1 => e.len - 1,
            _ => 1 + splitmix(h ^ 9) % (e.len - 1),
        };
        v.push(format!("short@{}#{}={}", e.site, e.occ, n));
    }
    v
}

pub struct FaultObs {
    pub out: Outcome,
    /// the step that contained the fault returned Err
    pub fault_surfaced: bool,
    pub faulted_step: usize,
}

/// Replay the concrete steps with the fault plan armed from process start; every step is checked
/// against the model. Then: variant A drain / reopen / drain / append+read, variant B reopen /
/// drain.
pub fn fault_run(cfg: &Cfg, steps: &[Step], plan: &str, base: &RunOpts, faulted_step: usize, variant_b: bool, drain: &[DrainStep]) -> FaultObs {
    let mut opts = base.clone();
    opts.spawn.env.push(("WVERIF_PLAN".into(), plan.to_string()));
    let mut run = match Run::new(cfg, opts) {
        Ok(r) => r,
        Err(e) => {
            let mut o = Outcome::default();
            o.inconclusive = Some(e);
            return FaultObs { out: o, fault_surfaced: false, faulted_step };
        }
    };
    let mut res: Check = Ok(());
    let mut surfaced = false;
    // did the faulted operation allocate a block while planning (layout mirror)?
    let mut faulted_op_allocated = false;
    for (i, s) in steps.iter().enumerate() {
        if i == faulted_step {
            if let Step::Do(Op::Batch { t, lens, .. }) = s {
                let mut tm = run.model.topics[*t as usize].clone();
                let before_rot = tm.rotations;
                let fresh = !tm.has_writer;
                for l in lens {
                    tm.mirror_append(*l);
                }
                faulted_op_allocated = tm.rotations > before_rot || fresh;
            }
        }
        let before = run.out.features.contains("append_err") || run.out.features.contains("batch_err");
        if i == faulted_step {
            run.out.features.remove("append_err");
            run.out.features.remove("batch_err");
        }
        res = run.apply(s);
        if i == faulted_step {
            surfaced = run.out.features.contains("append_err") || run.out.features.contains("batch_err");
            if before {
                run.out.features.insert("append_err".into());
            }
            if surfaced {
                run.out.features.insert("fault_surfaced".into());
                // was it the first operation on its topic?
                if let Step::Do(Op::Append { t, .. } | Op::Batch { t, .. }) = s {
                    if run.model.topics[*t as usize].appended.is_empty() {
                        run.out.features.insert("failed_op_first_on_topic".into());
                    }
                }
            }
        } else if surfaced {
            if let (Step::Do(Op::Append { .. } | Op::Batch { .. }), true) = (s, res.is_ok()) {
                run.out.features.insert("append_after_failed_one".into());
            }
        }
        if res.is_err() {
            break;
        }
    }
    // open finding C04-abandoned-block-id-drift: a rolled-back batch leaves the blocks it had
    // allocated unwritten; recovery numbers blocks by what it finds on disk, so after a restart
    // block ids can differ from the ones persisted cursors refer to. While it is open, a case
    // with that pattern is judged in-process only.
    let skip_restart = surfaced && faulted_op_allocated && run.opts.exclude.contains("restart-after-failed-batch-that-allocated");
    if skip_restart {
        *run.out.excluded.entry("restart-after-failed-batch-that-allocated".into()).or_insert(0) += 1;
        if res.is_ok() {
            res = run.drain(drain);
        }
        if res.is_ok() {
            let nt = run.model.topics.len() as u32;
            for t in 0..nt {
                let seq = 1_000_000 + t as u64;
                res = run.apply(&Step::Do(Op::Append { inst: 0, t, seq, len: 33 + t as u64 }));
                if res.is_err() {
                    break;
                }
                res = run.apply(&Step::Do(Op::ReadNext { inst: 0, t, ck: true }));
                if res.is_err() {
                    break;
                }
            }
        }
    } else if res.is_ok() {
        if variant_b {
            res = run.apply(&Step::ReopenFresh);
            if res.is_ok() {
                res = run.drain(drain);
            }
        } else {
            res = run.drain(drain);
            if res.is_ok() {
                res = run.apply(&Step::ReopenFresh);
            }
            if res.is_ok() {
                res = run.drain(drain);
            }
        }
        if res.is_ok() && surfaced {
            run.out.features.insert("checked_after_reopen".into());
        }
        // the instance still works: one more entry per topic goes in and comes out
        if res.is_ok() {
            let nt = run.model.topics.len() as u32;
            for t in 0..nt {
                let seq = 1_000_000 + t as u64;
                res = run.apply(&Step::Do(Op::Append { inst: 0, t, seq, len: 33 + t as u64 }));
                if res.is_err() {
                    break;
                }
                // a topic whose name cannot be stored rejects every append; nothing to read then
                res = run.apply(&Step::Do(Op::ReadNext { inst: 0, t, ck: true }));
                if res.is_err() {
                    break;
                }
            }
        }
    }
    let inconclusive = run.out.inconclusive.clone();
    let mut out = run.finish();
    if let Err(v) = res {
        if inconclusive.is_some() {
            out.inconclusive = inconclusive;
        } else {
            out.violation = Some(v);
        }
    }
    FaultObs { out, fault_surfaced: surfaced, faulted_step }
}

fn step_of(cr: &CountRun, k: u64) -> Option<usize> {
    cr.ranges.iter().position(|(a, b)| *a != 0 && k >= *a && k <= *b)
}

pub fn fault_case(prop: &str, case: &Case, base: &RunOpts, max_points: usize) -> CaseReport {
    let mut rep = CaseReport::default();
    let cr = match counting_run(case, base) {
        Ok(c) => c,
        Err(e) => {
            rep.inconclusive = Some(e);
            return rep;
        }
    };
    rep.features = cr.features.clone();
    rep.excluded = cr.excluded.clone();
    if let Some(d) = &cr.diverged {
        rep.features.insert("counting_run_diverged".into());
        rep.sample = Some(json!({"diverged": d}));
        return rep;
    }
    let h0 = str_hash(&serde_json::to_string(case).unwrap_or_default());
    // candidate (event, plan)
    let mut cands: Vec<(Event, String, usize)> = Vec::new();
    // the block-filling prefix of a file-roll history is setup, not a fault target
    let skip = match case.ops.first() {
        Some(AbsOp::Fill { n, .. }) => *n as usize,
        Some(AbsOp::Touch { .. }) => 1,
        _ => 0,
    };
    for e in &cr.events {
        let Some(i) = step_of(&cr, e.n) else { continue };
        if i < skip {
            continue;
        }
        if !is_append_step(&cr.steps[i]) || !FAULT_SITES.contains(&e.site.as_str()) {
            continue;
        }
        for p in plans_for(e, splitmix(h0 ^ e.n)) {
            cands.push((e.clone(), p, i));
        }
    }
    if cands.is_empty() {
        rep.sample = Some(json!({"events": cr.events.len(), "note": "no append I/O event"}));
        return rep;
    }
    let mut chosen: Vec<usize> = Vec::new();
    if cands.len() <= max_points {
        chosen = (0..cands.len()).collect();
    } else {
        // stratified: one per (site, step) first, preferring multi-event steps, then random
        let mut seen: BTreeSet<(String, usize)> = BTreeSet::new();
        let mut order: Vec<usize> = (0..cands.len()).collect();
        order.sort_by_key(|i| splitmix(h0 ^ (*i as u64)));
        for i in &order {
            let key = (cands[*i].0.site.clone(), cands[*i].2);
            let multi = cr.ranges[cands[*i].2].1 > cr.ranges[cands[*i].2].0;
            let rare = matches!(cands[*i].0.site.as_str(), "file_create" | "file_set_len" | "file_fsync" | "dir_fsync");
            if (multi || rare) && seen.insert(key) && chosen.len() < max_points * 2 / 3 {
                chosen.push(*i);
            }
        }
        for i in &order {
            if chosen.len() >= max_points {
                break;
            }
            if !chosen.contains(i) {
                chosen.push(*i);
            }
        }
    }
    chosen.sort();
    let mut sub = 0u64;
    let mut sub_nt = 0u64;
    let mut sample: Option<Value> = None;
    for ci in chosen {
        let (ev, plan, si) = &cands[ci];
        let variant_b = splitmix(h0 ^ ev.n ^ 0x55) % 2 == 0;
        let mut obs = fault_run(&case.cfg, &cr.steps, plan, base, *si, variant_b, &case.drain);
        sub += 1;
        if let Some(h) = obs.out.inconclusive.clone() {
            // A call that never returns after an injected fault is a trace of the failed call
            // (the fault-free run of the same steps completed). It is reported only if the
            // same call hangs again in a second run; a single timeout stays inconclusive.
            let mut hang: Option<String> = None;
            if h.starts_with("watchdog") {
                let again = fault_run(&case.cfg, &cr.steps, plan, base, *si, variant_b, &case.drain);
                if again.out.inconclusive.as_deref() == Some(h.as_str()) {
                    hang = Some(h.clone());
                } else if again.out.inconclusive.is_none() {
                    obs = again;
                }
            }
            if let Some(hmsg) = hang {
                let body = json!({
                    "kind": "fault",
                    "property": prop,
                    "cfg": case.cfg,
                    "steps": cr.steps,
                    "plan": plan,
                    "faulted_step": si,
                    "variant_b": variant_b,
                    "drain": case.drain,
                    "opts": opts_json(base),
                    "hang_is_violation": true,
                    "message": format!("[Hang] after the injected fault a later call never returns (twice, {} s watchdog each): {}", 120, hmsg),
                    "trace_tail": obs.out.trace.iter().rev().take(40).rev().collect::<Vec<_>>(),
                });
                rep.violation = Some((format!("fault plan {} in step {} ({}): [Hang] {}", plan, si, ev.site, hmsg), body));
                break;
            }
            if obs.out.inconclusive.is_some() {
                rep.inconclusive = Some(h);
                continue;
            }
        }
        for (k, n) in &obs.out.excluded {
            *rep.excluded.entry(k.clone()).or_insert(0) += n;
        }
        rep.features.insert(format!("fault_at_{}", ev.site));
        if plan.starts_with("short@") {
            rep.features.insert("short_completion".into());
        }
        for f in ["fault_surfaced", "failed_op_first_on_topic", "append_after_failed_one", "checked_after_reopen"] {
            if obs.out.features.contains(f) {
                rep.features.insert(f.into());
            }
        }
        if !obs.fault_surfaced {
            rep.features.insert("fault_tolerated_by_engine".into());
        }
        let spans = matches!(&cr.steps[*si], Step::Do(Op::Batch { .. })) && cr.events.iter().any(|e| e.n >= cr.ranges[*si].0 && e.n < ev.n && e.site == "flush");
        if spans && obs.fault_surfaced {
            rep.features.insert("fault_after_block_sealed_in_same_op".into());
        }
        let nt = obs.fault_surfaced
            && (spans || obs.out.features.contains("failed_op_first_on_topic") || (obs.out.features.contains("append_after_failed_one") && obs.out.features.contains("checked_after_reopen")));
        if nt {
            sub_nt += 1;
        }
        if sample.is_none() || (nt && sub % 4 == 0) {
            sample = Some(json!({
                "cfg": case.cfg,
                "workload_steps": cr.steps.len(),
                "fault_plan": plan,
                "faulted_step": format!("{:?}", cr.steps[*si]).chars().take(160).collect::<String>(),
                "fault_surfaced_as_err": obs.fault_surfaced,
                "after": if variant_b { "reopen, drain" } else { "drain, reopen, drain" },
                "trace_tail": obs.out.trace.iter().rev().take(8).rev().collect::<Vec<_>>(),
            }));
        }
        if let Some(v) = &obs.out.violation {
            let body = json!({
                "kind": "fault",
                "property": prop,
                "cfg": case.cfg,
                "steps": cr.steps,
                "plan": plan,
                "faulted_step": si,
                "variant_b": variant_b,
                "drain": case.drain,
                "opts": opts_json(base),
                "message": format!("[{:?}] {}", v.oracle, v.msg),
                "trace_tail": obs.out.trace.iter().rev().take(40).rev().collect::<Vec<_>>(),
            });
            rep.violation = Some((format!("fault plan {} in step {} ({}): [{:?}] {}", plan, si, ev.site, v.oracle, v.msg), body));
            break;
        }
    }
    rep.sub_evaluations = sub.saturating_sub(1);
    rep.sub_nontrivial = sub_nt;
    rep.sample = sample;
    rep
}

pub fn replay(body: &Value) -> Result<Option<String>, String> {
    let cfg: Cfg = serde_json::from_value(body.get("cfg").cloned().ok_or("no cfg")?).map_err(|e| e.to_string())?;
    let steps: Vec<Step> = serde_json::from_value(body.get("steps").cloned().ok_or("no steps")?).map_err(|e| e.to_string())?;
    let plan = body.get("plan").and_then(|p| p.as_str()).ok_or("no plan")?.to_string();
    let si = body.get("faulted_step").and_then(|x| x.as_u64()).unwrap_or(0) as usize;
    let vb = body.get("variant_b").and_then(|x| x.as_bool()).unwrap_or(false);
    let drain: Vec<DrainStep> = body.get("drain").cloned().and_then(|d| serde_json::from_value(d).ok()).unwrap_or_default();
    let opts = opts_from_json(body.get("opts").unwrap_or(&Value::Null));
    let obs = fault_run(&cfg, &steps, &plan, &opts, si, vb, &drain);
    if let Some(h) = obs.out.inconclusive {
        if h.starts_with("watchdog") && body.get("hang_is_violation").and_then(|x| x.as_bool()).unwrap_or(false) {
            return Ok(Some(format!("[Hang] {}", h)));
        }
        return Err(h);
    }
    Ok(obs.out.violation.map(|v| format!("[{:?}] {}", v.oracle, v.msg)))
}

fn c04_fault_mix() -> Mix {
    Mix { append: 30, batch: 30, batch_many: 1, read_next: 8, batch_read: 8, count: 2, max_batch: 8, ..Mix::consuming() }
}

fn c04_reject_mix() -> Mix {
    Mix { append: 26, batch: 12, batch_many: 1, read_next: 14, batch_read: 14, count: 4, reopen: 6, reject: 14, ..Mix::consuming() }
}

fn c04_reject_nontrivial(f: &BTreeSet<String>) -> bool {
    (f.contains("rejected_batch") || f.contains("rejected_append") || f.contains("append_err") || f.contains("batch_err")) && (f.contains("data_after_reopen") || f.contains("rotation"))
}

pub fn c04(ctx: &Ctx) {
    regress_and_probes(ctx);
    let excl = exclusions_for("C04");
    let q = ctx.tier == Tier::Quick;
    // (i) rejections that need no hook: oversized / too many entries / too many bytes / empty
    // batch / topic names that do not fit the entry header, interleaved with restarts
    {
        let enabled = vec![Oracle::Content, Oracle::Progress, Oracle::Count, Oracle::Reject, Oracle::Crash, Oracle::ReadErr];
        let mut opts = RunOpts::default();
        opts.exclude = excl.clone();
        opts.count_probes = true;
        for (name, prof, nops, cases) in [("reject-tiny", SizeProfile::Tiny, 8..70usize, if q { 500 } else { 12_000 }), ("reject-block", SizeProfile::Block, 5..22usize, if q { 80 } else { 4_000 })] {
            let nops2 = nops.clone();
            e1_search(
                ctx,
                name,
                move || case_strategy_topics(c04_reject_mix(), prof, nops2.clone(), 3, mode_strategy(), true),
                opts.clone(),
                enabled.clone(),
                c04_reject_nontrivial,
                true,
                cases,
                cores(),
            );
        }
    }
    // (ii) injected I/O faults
    let plans: Vec<(&str, SizeProfile, std::ops::Range<usize>, usize, usize)> = vec![
        ("fault-tiny", SizeProfile::Tiny, 3..22, if q { 64 } else { 1500 }, if q { 12 } else { 300 }),
        ("fault-block", SizeProfile::Block, 3..12, if q { 16 } else { 600 }, if q { 8 } else { 300 }),
    ];
    for (name, prof, nops, cases, pts) in plans {
        let prop = ctx.prop.clone();
        let mut base = RunOpts::default();
        base.exclude = excl.clone();
        let nops2 = nops.clone();
        let s = Search {
            name: name.to_string(),
            strategy: Box::new(move || case_strategy(c04_fault_mix(), prof, nops2.clone(), 2, mode_strategy())),
            run: Box::new(move |case: &Case| fault_case(&prop, case, &base, pts)),
            cases,
            workers: cores(),
            max_shrink_iters: 60,
            shrink_secs: 300,
        };
        run_search(ctx, &s);
    }
    // (iii) faults around the WAL file roll-over (block 101 needs a new file: create, set_len,
    // fsync, directory fsync can fail while an append / a batch is sealing its block)
    {
        let prop = ctx.prop.clone();
        let mut base = RunOpts::default();
        base.exclude = excl.clone();
        let pts = if q { 8 } else { 40 };
        let s = Search {
            name: "fault-fileroll".to_string(),
            strategy: Box::new(move || fileroll_case_strategy(Mix { batch: 30, max_batch: 3, ..c04_fault_mix() }, 2..8, 2, mode_strategy())),
            run: Box::new(move |case: &Case| fault_case(&prop, case, &base, pts)),
            cases: if q { 12 } else { 400 },
            workers: cores(),
            max_shrink_iters: 30,
            shrink_secs: 300,
        };
        run_search(ctx, &s);
    }
    let _ = WRITE_SITES;
}

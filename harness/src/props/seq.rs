//! E1 (sequential model-based) properties: C01, C03, C15 (+ C02, C06, C16, C17 further down).
use super::*;
use crate::proto::Mode;
use proptest::prelude::*;

fn has(f: &BTreeSet<String>, k: &str) -> bool {
    f.contains(k)
}

// ------------------------------------------------------------------------------------------ C01
fn c01_nontrivial(f: &BTreeSet<String>) -> bool {
    has(f, "batchread_in_sealed_with_tail") || has(f, "zero_len_returned_by_batch") || has(f, "read_next_crosses_block") || has(f, "cursor_at_block_end_with_data")
}

pub fn c01(ctx: &Ctx) {
    regress_and_probes(ctx);
    let enabled = vec![Oracle::Content, Oracle::Progress, Oracle::Crash, Oracle::ReadErr];
    let mut opts = RunOpts::default();
    opts.exclude = exclusions_for("C01");
    let w = cores();
    let q = ctx.tier == Tier::Quick;
    let plans: Vec<(&str, SizeProfile, std::ops::Range<usize>, usize)> = vec![
        ("tiny", SizeProfile::Tiny, 10..120, if q { 800 } else { 24_000 }),
        ("block", SizeProfile::Block, 6..28, if q { 240 } else { 12_000 }),
        ("multi", SizeProfile::Multi, 5..18, if q { 80 } else { 4_000 }),
    ];
    for (name, prof, nops, cases) in plans {
        let nops2 = nops.clone();
        e1_search(
            ctx,
            name,
            move || case_strategy(Mix::consuming(), prof, nops2.clone(), 4, mode_strategy()),
            opts.clone(),
            enabled.clone(),
            c01_nontrivial,
            true,
            cases,
            w,
        );
    }
}

// ------------------------------------------------------------------------------------------ C03
fn c03_nontrivial(f: &BTreeSet<String>) -> bool {
    has(f, "budget_lt_next") || has(f, "cap_hit") || has(f, "cursor_at_block_end_with_data")
}

fn c03_mix() -> Mix {
    Mix { append: 22, batch: 10, batch_many: 5, read_next: 5, batch_read: 50, ..Mix::consuming() }
}

pub fn c03(ctx: &Ctx) {
    regress_and_probes(ctx);
    // Content is *not* in the enabled set: a content divergence belongs to C01 and ends the case
    // as "diverged" so that progress is never judged against a model that no longer matches.
    let enabled = vec![Oracle::Cap, Oracle::Budget, Oracle::Progress, Oracle::Crash, Oracle::ReadErr];
    let mut opts = RunOpts::default();
    opts.exclude = exclusions_for("C03");
    let w = cores();
    let q = ctx.tier == Tier::Quick;
    let plans: Vec<(&str, SizeProfile, std::ops::Range<usize>, usize)> = vec![
        ("tiny", SizeProfile::Tiny, 10..100, if q { 900 } else { 24_000 }),
        ("block", SizeProfile::Block, 6..28, if q { 240 } else { 12_000 }),
    ];
    for (name, prof, nops, cases) in plans {
        let nops2 = nops.clone();
        e1_search(
            ctx,
            name,
            move || case_strategy(c03_mix(), prof, nops2.clone(), 3, mode_strategy()),
            opts.clone(),
            enabled.clone(),
            c03_nontrivial,
            true,
            cases,
            w,
        );
    }
}

// ------------------------------------------------------------------------------------------ C15
fn c15_nontrivial(f: &BTreeSet<String>) -> bool {
    has(f, "count_probe")
        && (has(f, "rejected_batch") || has(f, "rejected_append") || has(f, "zero_len_returned_by_batch") || has(f, "reopen_with_tail_cursor") || has(f, "rotation") || has(f, "stateless_read"))
}

fn c15_mix() -> Mix {
    Mix { append: 24, batch: 10, batch_many: 1, read_next: 14, batch_read: 16, peek: 6, stateless: 6, count: 6, reopen: 3, reject: 3, ..Mix::consuming() }
}

pub fn c15(ctx: &Ctx) {
    regress_and_probes(ctx);
    let enabled = vec![Oracle::Count, Oracle::Crash];
    let mut opts = RunOpts::default();
    opts.exclude = exclusions_for("C15");
    opts.count_probes = true;
    let w = cores();
    let q = ctx.tier == Tier::Quick;
    let plans: Vec<(&str, SizeProfile, std::ops::Range<usize>, usize)> = vec![
        ("tiny", SizeProfile::Tiny, 10..100, if q { 900 } else { 20_000 }),
        ("block", SizeProfile::Block, 6..26, if q { 200 } else { 8_000 }),
    ];
    for (name, prof, nops, cases) in plans {
        let nops2 = nops.clone();
        e1_search(
            ctx,
            name,
            move || case_strategy(c15_mix(), prof, nops2.clone(), 3, prop_oneof![3 => Just(Mode::Strict), 1 => (1u32..=8).prop_map(Mode::Alo)].boxed()),
            opts.clone(),
            enabled.clone(),
            c15_nontrivial,
            true,
            cases,
            w,
        );
    }
}

// ------------------------------------------------------------------------------------------ C06
fn c06_nontrivial(f: &BTreeSet<String>) -> bool {
    has(f, "data_after_reopen")
        && (has(f, "reopen_with_multi_unit_block") || has(f, "reopen_with_tail_cursor") || has(f, "reopen_with_empty_block") || has(f, "reopen_twice") || has(f, "clock_regression"))
}

fn c06_mix() -> Mix {
    Mix { append: 26, batch: 10, batch_many: 1, read_next: 16, batch_read: 16, peek: 5, stateless: 0, count: 5, reopen: 9, clock: 1, reject: 3, ..Mix::consuming() }
}

pub fn c06(ctx: &Ctx) {
    regress_and_probes(ctx);
    let enabled = vec![Oracle::Content, Oracle::Progress, Oracle::Count, Oracle::Crash, Oracle::ReadErr, Oracle::Reject];
    let mut opts = RunOpts::default();
    opts.exclude = exclusions_for("C06");
    let w = cores();
    let q = ctx.tier == Tier::Quick;
    let plans: Vec<(&str, SizeProfile, std::ops::Range<usize>, usize)> = vec![
        ("tiny", SizeProfile::Tiny, 10..90, if q { 800 } else { 20_000 }),
        ("block", SizeProfile::Block, 6..26, if q { 220 } else { 8_000 }),
        ("multi", SizeProfile::Multi, 5..16, if q { 80 } else { 3_000 }),
    ];
    for (name, prof, nops, cases) in plans {
        let nops2 = nops.clone();
        e1_search(
            ctx,
            name,
            move || case_strategy(c06_mix(), prof, nops2.clone(), 3, mode_strategy()),
            opts.clone(),
            enabled.clone(),
            c06_nontrivial,
            true,
            cases,
            w,
        );
    }
}

// ------------------------------------------------------------------------------------------ C17
fn c17_nontrivial(f: &BTreeSet<String>) -> bool {
    has(f, "reopen_after_marker_change")
}

pub fn c17(ctx: &Ctx) {
    regress_and_probes(ctx);
    let enabled = vec![Oracle::Marker, Oracle::Crash];
    let mut opts = RunOpts::default();
    opts.exclude = exclusions_for("C17");
    opts.marker_probes = true;
    let w = cores();
    let q = ctx.tier == Tier::Quick;
    let mix = Mix { append: 10, batch: 3, batch_many: 0, read_next: 3, batch_read: 2, peek: 0, stateless: 0, count: 0, reopen: 8, clock: 0, reject: 1, marks: 30, max_batch: 4 };
    e1_search(
        ctx,
        "markers",
        move || case_strategy(mix.clone(), SizeProfile::Tiny, 6..60, 3, mode_strategy()),
        opts.clone(),
        enabled.clone(),
        c17_nontrivial,
        false,
        if q { 1200 } else { 30_000 },
        w,
    );
}

//! E1 (sequential model-based) properties: C01, C03, C15 (+ C02, C06, C16, C17 further down).
use super::*;
use crate::proto::Mode;
use proptest::prelude::*;

fn has(f: &BTreeSet<String>, k: &str) -> bool {
    f.contains(k)
}

// ------------------------------------------------------------------------------------------ C01
fn c01_nontrivial(f: &BTreeSet<String>) -> bool {
    has(f, "batchread_in_sealed_with_tail") || has(f, "zero_len_returned_by_batch") || has(f, "read_next_crosses_block") || has(f, "cursor_at_block_end_with_data")
}

pub fn c01(ctx: &Ctx) {
    regress_and_probes(ctx);
    let enabled = vec![Oracle::Content, Oracle::Progress, Oracle::Crash, Oracle::ReadErr];
    let mut opts = RunOpts::default();
    opts.exclude = exclusions_for("C01");
    let w = cores();
    let q = ctx.tier == Tier::Quick;
    let plans: Vec<(&str, SizeProfile, std::ops::Range<usize>, usize)> = vec![
        ("tiny", SizeProfile::Tiny, 10..120, if q { 800 } else { 24_000 }),
        ("block", SizeProfile::Block, 6..28, if q { 240 } else { 12_000 }),
        ("multi", SizeProfile::Multi, 5..18, if q { 80 } else { 4_000 }),
    ];
    // a topic whose chain crosses from one WAL file into the next (96-98 units are handed out
    // cheaply first, then 3-5 entries that need a block each), read back with both read APIs
    e1_search(
        ctx,
        "file-boundary",
        move || fileroll_case_strategy(Mix { append: 14, batch: 6, batch_many: 0, read_next: 30, batch_read: 50, ..Mix::consuming() }, 3..10, 2, mode_strategy()),
        opts.clone(),
        enabled.clone(),
        |f| has(f, "file_end_approached") && (has(f, "batch_read_used") || has(f, "read_next_used")),
        true,
        if q { 48 } else { 2_000 },
        w,
    );
    for (name, prof, nops, cases) in plans {
        let nops2 = nops.clone();
        e1_search(
            ctx,
            name,
            move || case_strategy(Mix::consuming(), prof, nops2.clone(), 4, mode_strategy()),
            opts.clone(),
            enabled.clone(),
            c01_nontrivial,
            true,
            cases,
            w,
        );
    }
}

// ------------------------------------------------------------------------------------------ C03
fn c03_nontrivial(f: &BTreeSet<String>) -> bool {
    has(f, "budget_lt_next") || has(f, "cap_hit") || has(f, "cursor_at_block_end_with_data")
}

fn c03_mix() -> Mix {
    Mix { append: 22, batch: 10, batch_many: 5, read_next: 5, batch_read: 50, ..Mix::consuming() }
}

pub fn c03(ctx: &Ctx) {
    regress_and_probes(ctx);
    // Content is *not* in the enabled set: a content divergence belongs to C01 and ends the case
    // as "diverged" so that progress is never judged against a model that no longer matches.
    let enabled = vec![Oracle::Cap, Oracle::Budget, Oracle::Progress, Oracle::Crash, Oracle::ReadErr];
    let mut opts = RunOpts::default();
    opts.exclude = exclusions_for("C03");
    let w = cores();
    let q = ctx.tier == Tier::Quick;
    let plans: Vec<(&str, SizeProfile, std::ops::Range<usize>, usize)> = vec![
        ("tiny", SizeProfile::Tiny, 10..100, if q { 900 } else { 24_000 }),
        ("block", SizeProfile::Block, 6..28, if q { 240 } else { 12_000 }),
    ];
    for (name, prof, nops, cases) in plans {
        let nops2 = nops.clone();
        e1_search(
            ctx,
            name,
            move || case_strategy(c03_mix(), prof, nops2.clone(), 3, mode_strategy()),
            opts.clone(),
            enabled.clone(),
            c03_nontrivial,
            true,
            cases,
            w,
        );
    }
}

// ------------------------------------------------------------------------------------------ C15
fn c15_nontrivial(f: &BTreeSet<String>) -> bool {
    has(f, "count_probe")
        && (has(f, "rejected_batch") || has(f, "rejected_append") || has(f, "zero_len_returned_by_batch") || has(f, "reopen_with_tail_cursor") || has(f, "rotation") || has(f, "stateless_read"))
}

fn c15_mix() -> Mix {
    Mix { append: 24, batch: 10, batch_many: 1, read_next: 14, batch_read: 16, peek: 6, stateless: 6, count: 6, reopen: 3, reject: 3, ..Mix::consuming() }
}

pub fn c15(ctx: &Ctx) {
    regress_and_probes(ctx);
    let enabled = vec![Oracle::Count, Oracle::Crash];
    let mut opts = RunOpts::default();
    opts.exclude = exclusions_for("C15");
    opts.count_probes = true;
    let w = cores();
    let q = ctx.tier == Tier::Quick;
    let plans: Vec<(&str, SizeProfile, std::ops::Range<usize>, usize)> = vec![
        ("tiny", SizeProfile::Tiny, 10..100, if q { 900 } else { 20_000 }),
        ("block", SizeProfile::Block, 6..26, if q { 200 } else { 8_000 }),
    ];
    for (name, prof, nops, cases) in plans {
        let nops2 = nops.clone();
        e1_search(
            ctx,
            name,
            move || case_strategy(c15_mix(), prof, nops2.clone(), 3, prop_oneof![3 => Just(Mode::Strict), 1 => (1u32..=8).prop_map(Mode::Alo)].boxed()),
            opts.clone(),
            enabled.clone(),
            c15_nontrivial,
            true,
            cases,
            w,
        );
    }
}

// ------------------------------------------------------------------------------------------ C06
fn c06_nontrivial(f: &BTreeSet<String>) -> bool {
    has(f, "data_after_reopen")
        && (has(f, "reopen_with_multi_unit_block") || has(f, "reopen_with_tail_cursor") || has(f, "reopen_with_empty_block") || has(f, "reopen_twice") || has(f, "clock_regression"))
}

fn c06_mix() -> Mix {
    Mix { append: 26, batch: 10, batch_many: 1, read_next: 16, batch_read: 16, peek: 5, stateless: 0, count: 5, reopen: 9, clock: 1, reject: 3, ..Mix::consuming() }
}

pub fn c06(ctx: &Ctx) {
    regress_and_probes(ctx);
    let enabled = vec![Oracle::Content, Oracle::Progress, Oracle::Count, Oracle::Crash, Oracle::ReadErr, Oracle::Reject];
    let mut opts = RunOpts::default();
    opts.exclude = exclusions_for("C06");
    let w = cores();
    let q = ctx.tier == Tier::Quick;
    let plans: Vec<(&str, SizeProfile, std::ops::Range<usize>, usize)> = vec![
        ("tiny", SizeProfile::Tiny, 10..90, if q { 800 } else { 20_000 }),
        ("block", SizeProfile::Block, 6..26, if q { 220 } else { 8_000 }),
        ("multi", SizeProfile::Multi, 5..16, if q { 80 } else { 3_000 }),
    ];
    // histories that cross the end of a WAL file: 96-99 blocks are allocated cheaply first, then
    // block-sized operations (with entries aimed at exact block ends) fill the last blocks of the
    // file and roll over to the next one, with reopen events in between
    {
        let mut mix = c06_mix();
        mix.batch_many = 0;
        e1_search(
            ctx,
            "file-end",
            move || {
                (any::<u8>(), case_strategy(mix.clone(), SizeProfile::Block, 5..18, 2, mode_strategy()))
                    .prop_map(|(n, mut c)| {
                        c.ops.insert(0, AbsOp::Touch { n: 96 + n % 4 });
                        c
                    })
                    .boxed()
            },
            opts.clone(),
            enabled.clone(),
            c06_nontrivial,
            true,
            if q { 60 } else { 3_000 },
            w,
        );
    }
    for (name, prof, nops, cases) in plans {
        let nops2 = nops.clone();
        e1_search(
            ctx,
            name,
            move || case_strategy(c06_mix(), prof, nops2.clone(), 3, mode_strategy()),
            opts.clone(),
            enabled.clone(),
            c06_nontrivial,
            true,
            cases,
            w,
        );
    }
}

// ------------------------------------------------------------------------------------------ C17
fn c17_nontrivial(f: &BTreeSet<String>) -> bool {
    has(f, "reopen_after_marker_change")
}

pub fn c17(ctx: &Ctx) {
    regress_and_probes(ctx);
    let enabled = vec![Oracle::Marker, Oracle::Crash];
    let mut opts = RunOpts::default();
    opts.exclude = exclusions_for("C17");
    opts.marker_probes = true;
    let w = cores();
    let q = ctx.tier == Tier::Quick;
    let mix = Mix { append: 10, batch: 3, batch_many: 0, read_next: 3, batch_read: 2, peek: 0, stateless: 0, count: 0, reopen: 8, clock: 0, reject: 1, marks: 30, max_batch: 4 };
    e1_search(
        ctx,
        "markers",
        move || case_strategy(mix.clone(), SizeProfile::Tiny, 6..60, 3, mode_strategy()),
        opts.clone(),
        enabled.clone(),
        c17_nontrivial,
        false,
        if q { 1200 } else { 30_000 },
        w,
    );
    // the same histories with transient outages of the marker file (its temporary file cannot be
    // created for a while; the outage always ends before the instance is shut down): what was
    // acknowledged during the outage must still be what the next lifetime reports
    let mix2 = Mix { append: 10, batch: 3, batch_many: 0, read_next: 2, batch_read: 1, peek: 0, stateless: 0, count: 0, reopen: 10, clock: 0, reject: 0, marks: 30, max_batch: 4 };
    e1_search(
        ctx,
        "marker-outage",
        move || {
            (case_strategy(mix2.clone(), SizeProfile::Tiny, 6..40, 3, mode_strategy()), proptest::collection::vec((any::<u16>(), any::<bool>()), 1..6))
                .prop_map(|(mut c, toggles)| {
                    for (pos, on) in toggles {
                        let at = (pos as usize * (c.ops.len() + 1)) >> 16;
                        c.ops.insert(at, AbsOp::MarkerOutage { on });
                    }
                    c
                })
                .boxed()
        },
        opts.clone(),
        enabled.clone(),
        |f| has(f, "marker_changed_during_outage") && has(f, "reopen_after_marker_change"),
        false,
        if q { 400 } else { 10_000 },
        w,
    );
}

// ------------------------------------------------------------------------------------------ C16
fn c16_nontrivial(f: &BTreeSet<String>) -> bool {
    has(f, "batch_spans_rotation") || has(f, "batchread_in_sealed_with_tail") || (has(f, "rotation") && has(f, "batch_read_used"))
}

fn c16_mix() -> Mix {
    Mix { append: 24, batch: 14, batch_many: 1, read_next: 12, batch_read: 18, peek: 5, stateless: 6, count: 4, reopen: 4, reject: 3, ..Mix::consuming() }
}

/// Run the abstract case on the FD backend, then replay exactly the same concrete steps on the
/// mmap backend and compare every response.
fn c16_run(prop: &str, case: &Case, excl: &BTreeSet<String>) -> CaseReport {
    let enabled = vec![Oracle::Backend, Oracle::Crash];
    let mut o1 = RunOpts::default();
    o1.exclude = excl.clone();
    o1.force_fd = Some(true);
    let a = run_case(case, o1.clone(), &[Oracle::Crash], true);
    let mut o2 = o1.clone();
    o2.force_fd = Some(false);
    let b = replay_steps(&case.cfg, &a.steps, o2, &[Oracle::Crash]);
    let mut rep = CaseReport::default();
    rep.features = a.features.clone();
    rep.excluded = a.excluded.clone();
    rep.nontrivial = c16_nontrivial(&a.features);
    rep.inconclusive = a.inconclusive.clone().or(b.inconclusive.clone());
    rep.sample = Some(json!({"cfg": case.cfg, "steps": a.n_steps, "first_steps_fd": a.trace.iter().take(10).collect::<Vec<_>>(), "features": a.features}));
    if rep.inconclusive.is_some() {
        return rep;
    }
    // a crash on either side (without the other) is a difference as well; a crash on both sides
    // with the same message is another property's business
    let mut diff: Option<String> = None;
    let n = a.full_obs.len().max(b.full_obs.len());
    for i in 0..n {
        let x = a.full_obs.get(i);
        let y = b.full_obs.get(i);
        if x != y {
            let cut = |s: Option<&String>| s.map(|s| s.chars().take(400).collect::<String>()).unwrap_or_else(|| "(nothing: run ended)".into());
            diff = Some(format!("step {}: fd backend: {} | mmap backend: {}", i, cut(x), cut(y)));
            break;
        }
    }
    if diff.is_none() {
        let va = a.violation.as_ref().map(|v| v.msg.clone());
        let vb = b.violation.as_ref().map(|v| v.msg.clone());
        if va.is_some() != vb.is_some() {
            diff = Some(format!("one backend failed: fd={:?} mmap={:?}", va, vb));
        }
    }
    if let Some(d) = diff {
        let body = json!({
            "kind": "c16",
            "property": prop,
            "cfg": case.cfg,
            "steps": a.steps,
            "exclude": excl,
            "abstract_case": case,
            "difference": d,
        });
        rep.violation = Some((format!("[Backend] {}", d), body));
    }
    let _ = enabled;
    rep
}

pub fn c16_replay(body: &Value) -> Result<Option<String>, String> {
    let cfg: Cfg = serde_json::from_value(body.get("cfg").cloned().ok_or("no cfg")?).map_err(|e| e.to_string())?;
    let steps: Vec<Step> = serde_json::from_value(body.get("steps").cloned().ok_or("no steps")?).map_err(|e| e.to_string())?;
    let mut o1 = RunOpts::default();
    o1.force_fd = Some(true);
    let a = replay_steps(&cfg, &steps, o1.clone(), &[Oracle::Crash]);
    let mut o2 = o1;
    o2.force_fd = Some(false);
    let b = replay_steps(&cfg, &steps, o2, &[Oracle::Crash]);
    if let Some(i) = a.inconclusive.or(b.inconclusive) {
        return Err(i);
    }
    for i in 0..a.full_obs.len().max(b.full_obs.len()) {
        if a.full_obs.get(i) != b.full_obs.get(i) {
            return Ok(Some(format!("[Backend] step {}: fd: {:?} | mmap: {:?}", i, a.full_obs.get(i), b.full_obs.get(i))));
        }
    }
    Ok(None)
}

pub fn c16(ctx: &Ctx) {
    regress_and_probes(ctx);
    let excl = exclusions_for("C16");
    let w = cores();
    let q = ctx.tier == Tier::Quick;
    let plans: Vec<(&str, SizeProfile, std::ops::Range<usize>, usize)> = vec![
        ("tiny", SizeProfile::Tiny, 10..90, if q { 500 } else { 12_000 }),
        ("block", SizeProfile::Block, 6..24, if q { 140 } else { 5_000 }),
        ("multi", SizeProfile::Multi, 5..14, if q { 40 } else { 1_500 }),
    ];
    for (name, prof, nops, cases) in plans {
        let prop = ctx.prop.clone();
        let excl2 = excl.clone();
        let nops2 = nops.clone();
        let s = Search {
            name: name.to_string(),
            strategy: Box::new(move || case_strategy(c16_mix(), prof, nops2.clone(), 3, mode_strategy())),
            run: Box::new(move |case: &Case| c16_run(&prop, case, &excl2)),
            cases,
            workers: w,
            max_shrink_iters: 300,
            shrink_secs: 240,
        };
        run_search(ctx, &s);
    }
}

// ------------------------------------------------------------------------------------------ C02
fn c02_nontrivial(f: &BTreeSet<String>) -> bool {
    has(f, "peek_at_block_end") || has(f, "stateless_ck_true_alo") || (has(f, "peek_pair_checked") && has(f, "rotation")) || (has(f, "stateless_read") && has(f, "rotation"))
        || (has(f, "data_after_reopen") && (has(f, "peek_pair_checked") || has(f, "stateless_read")))
}

fn c02_mix() -> Mix {
    Mix { append: 24, batch: 10, batch_many: 1, read_next: 12, batch_read: 14, peek: 18, stateless: 14, count: 5, reopen: 0, reject: 0, ..Mix::consuming() }
}

fn c02_enabled() -> Vec<Oracle> {
    vec![Oracle::Peek, Oracle::Stateless, Oracle::Erasure, Oracle::Crash]
}

/// All three relations on one abstract case.
///  * run A: the history as generated, every peek followed by its consuming twin (relation 1),
///    offset reads checked for content (relation 3);
///  * run B: the history as generated (no twins);  run C: the history with every non-consuming
///    read erased. B and C must agree on every consuming result, count, the number of WAL files
///    and the tracker view after a full drain (relation 2). A model divergence (content,
///    progress, count) in A or B is attributed to C02 only if C - the same history without the
///    non-consuming reads - does not diverge; otherwise it is another property's business.
fn c02_erasure_run(prop: &str, case: &Case, excl: &BTreeSet<String>) -> CaseReport {
    let all = vec![Oracle::Peek, Oracle::Stateless, Oracle::Content, Oracle::Progress, Oracle::Count, Oracle::Cap, Oracle::Budget, Oracle::ReadErr, Oracle::Crash];
    let mut oa = RunOpts::default();
    oa.exclude = excl.clone();
    oa.peek_pairs = true;
    let a = run_case(case, oa.clone(), &all, true);
    let mut ob = RunOpts::default();
    ob.exclude = excl.clone();
    ob.final_obs = true;
    let b = run_case(case, ob.clone(), &all, true);
    let mut oc = ob.clone();
    oc.erase_nonconsuming = true;
    let c = run_case(case, oc, &all, true);

    let mut feats = a.features.clone();
    feats.extend(b.features.iter().cloned());
    let mut merged = a.clone();
    merged.features = feats;
    let mut rep = e1_report(prop, case, merged, &oa, &c02_enabled(), c02_nontrivial);
    rep.violation = None;
    rep.inconclusive = a.inconclusive.clone().or(b.inconclusive.clone()).or(c.inconclusive.clone());
    if rep.inconclusive.is_some() {
        return rep;
    }
    let mk = |d: String, which: &str, out: &Outcome| {
        let body = json!({
            "kind": "c02-erasure",
            "property": prop,
            "cfg": case.cfg,
            "abstract_case": case,
            "exclude": excl,
            "difference": d,
            "run": which,
            "trace_tail": out.trace.iter().rev().take(30).rev().collect::<Vec<_>>(),
        });
        (format!("[C02] {}", d), body)
    };
    // direct relations
    for (which, out) in [("with-peek-pairs", &a), ("as-generated", &b)] {
        if let Some(v) = &out.violation {
            match v.oracle {
                Oracle::Peek | Oracle::Stateless => {
                    rep.violation = Some(mk(format!("{:?}: {}", v.oracle, v.msg), which, out));
                    return rep;
                }
                _ => {
                    if c.violation.is_none() {
                        rep.violation = Some(mk(
                            format!(
                                "{:?}: {} -- the same history without its non-consuming reads shows no such divergence, so a peek / offset-addressed read changed what later reads or counts see",
                                v.oracle, v.msg
                            ),
                            which,
                            out,
                        ));
                        return rep;
                    } else {
                        rep.features.insert("diverged_also_without_nonconsuming".into());
                        return rep;
                    }
                }
            }
        }
    }
    if c.violation.is_some() {
        rep.features.insert("diverged_only_without_nonconsuming".into());
        return rep;
    }
    let n = b.obs.len().max(c.obs.len());
    for i in 0..n {
        if b.obs.get(i) != c.obs.get(i) {
            let cut = |s: Option<&String>| s.map(|s| s.chars().take(300).collect::<String>()).unwrap_or_else(|| "(nothing)".into());
            let d = format!(
                "observation {} differs between the history with peeks/offset reads and the same history without them: with: {} | without: {}",
                i,
                cut(b.obs.get(i)),
                cut(c.obs.get(i))
            );
            rep.violation = Some(mk(d, "as-generated", &b));
            break;
        }
    }
    rep
}

pub fn c02_erasure_replay(body: &Value) -> Result<Option<String>, String> {
    let case: Case = serde_json::from_value(body.get("abstract_case").cloned().ok_or("no case")?).map_err(|e| e.to_string())?;
    let mut excl = BTreeSet::new();
    if let Some(a) = body.get("exclude").and_then(|x| x.as_array()) {
        for s in a {
            if let Some(s) = s.as_str() {
                excl.insert(s.to_string());
            }
        }
    }
    let rep = c02_erasure_run("C02", &case, &excl);
    if let Some(i) = rep.inconclusive {
        return Err(i);
    }
    Ok(rep.violation.map(|v| v.0))
}

pub fn c02(ctx: &Ctx) {
    regress_and_probes(ctx);
    let excl = exclusions_for("C02");
    let w = cores();
    let q = ctx.tier == Tier::Quick;
    let plans: Vec<(&str, SizeProfile, std::ops::Range<usize>, usize)> = vec![
        ("tiny", SizeProfile::Tiny, 10..80, if q { 420 } else { 10_000 }),
        ("block", SizeProfile::Block, 6..22, if q { 110 } else { 4_000 }),
        ("restart-tiny", SizeProfile::Tiny, 10..60, if q { 200 } else { 6_000 }),
        ("restart-block", SizeProfile::Block, 6..22, if q { 40 } else { 3_000 }),
    ];
    for (name, prof, nops, cases) in plans {
        let prop = ctx.prop.clone();
        let excl2 = excl.clone();
        let nops2 = nops.clone();
        // "restart-*": the same three runs with clean restarts in the history, so that "later reads"
        // includes the reads of the next lifetime: a peek must not change the durable cursor or the
        // counts rebuilt from it either (AtLeastOnce keeps the in-memory cursor ahead of the durable
        // one, so a peek that persists anything shows only after a restart)
        let mix = if name.starts_with("restart") { Mix { reopen: 9, ..c02_mix() } } else { c02_mix() };
        let s = Search {
            name: name.to_string(),
            strategy: Box::new(move || case_strategy(mix.clone(), prof, nops2.clone(), 3, mode_strategy())),
            run: Box::new(move |case: &Case| c02_erasure_run(&prop, case, &excl2)),
            cases,
            workers: w,
            max_shrink_iters: 200,
            shrink_secs: 240,
        };
        run_search(ctx, &s);
    }
}

//! E5 (C11): opening damaged WAL state never crashes and never returns corrupt data.
//!
//! A generated workload builds a valid directory (WAL files with several topics, a cursor file,
//! a marker file), the process exits cleanly, then generated mutations are applied to the files
//! (aimed at entry headers found by their owner string, at payloads, at the cursor / marker
//! files; truncation, extension, zeroed ranges, swapped units, stray files). A fresh process
//! opens the directory and reads every topic through every read API. It must neither panic,
//! abort, die from a signal nor hang, and every payload it returns must be a payload that was
//! appended to that topic.
use super::*;
use crate::child::*;
use crate::payload;
use crate::proto::*;
use proptest::prelude::*;
use serde::{Deserialize, Serialize};

#[derive(Clone, Debug, Serialize, Deserialize, PartialEq, Eq, Hash)]
pub enum Target {
    /// byte `delta` of the `k`-th entry header found in the WAL files
    Header { k: u16, delta: u8 },
    /// inside the payload following the k-th header
    Payload { k: u16, off: u16 },
    /// anywhere in the allocated part of a WAL file
    WalAny { pos: u32 },
    Index { pos: u16 },
    Marker { pos: u16 },
}

#[derive(Clone, Debug, Serialize, Deserialize, PartialEq, Eq, Hash)]
pub enum Mutation {
    Flip { at: Target, bit: u8 },
    Set { at: Target, val: u8 },
    Zero { at: Target, len: u16 },
    /// cut the file that holds the target at the target position
    TruncateAt { at: Target },
    TruncateTo { wal: bool, len: u32 },
    Extend { wal: bool, by: u16 },
    SwapUnits { a: u8, b: u8 },
    /// stray directory entries
    Stray { kind: u8 },
    RemoveIndex,
    RemoveMarker,
}

#[derive(Clone, Debug, Serialize, Deserialize, PartialEq, Eq, Hash)]
pub struct DamageCase {
    pub base: Case,
    pub muts: Vec<Mutation>,
}

fn target_strategy() -> BoxedStrategy<Target> {
    prop_oneof![
        8 => (any::<u16>(), prop_oneof![3 => 0u8..4, 4 => 2u8..80, 1 => any::<u8>()]).prop_map(|(k, delta)| Target::Header { k, delta }),
        3 => (any::<u16>(), any::<u16>()).prop_map(|(k, off)| Target::Payload { k, off }),
        2 => any::<u32>().prop_map(|pos| Target::WalAny { pos }),
        3 => any::<u16>().prop_map(|pos| Target::Index { pos }),
        2 => any::<u16>().prop_map(|pos| Target::Marker { pos }),
    ]
    .boxed()
}

fn mutation_strategy() -> BoxedStrategy<Mutation> {
    prop_oneof![
        8 => (target_strategy(), 0u8..8).prop_map(|(at, bit)| Mutation::Flip { at, bit }),
        6 => (target_strategy(), prop_oneof![Just(0u8), Just(1), Just(3), Just(0xff), any::<u8>()]).prop_map(|(at, val)| Mutation::Set { at, val }),
        3 => (target_strategy(), 1u16..600).prop_map(|(at, len)| Mutation::Zero { at, len }),
        2 => target_strategy().prop_map(|at| Mutation::TruncateAt { at }),
        2 => (any::<bool>(), prop_oneof![Just(0u32), 1u32..300, any::<u32>()]).prop_map(|(wal, len)| Mutation::TruncateTo { wal, len }),
        1 => (any::<bool>(), 1u16..5000).prop_map(|(wal, by)| Mutation::Extend { wal, by }),
        1 => (0u8..6, 0u8..6).prop_map(|(a, b)| Mutation::SwapUnits { a, b }),
        3 => (0u8..7).prop_map(|kind| Mutation::Stray { kind }),
        1 => Just(Mutation::RemoveIndex),
        1 => Just(Mutation::RemoveMarker),
    ]
    .boxed()
}

pub fn damage_strategy(p: SizeProfile, nops: std::ops::Range<usize>) -> BoxedStrategy<DamageCase> {
    let mix = Mix { append: 30, batch: 12, batch_many: 0, read_next: 10, batch_read: 8, marks: 6, max_batch: 6, ..Mix::consuming() };
    (case_strategy(mix, p, nops, 3, mode_strategy()), proptest::collection::vec(mutation_strategy(), 1..=4))
        .prop_map(|(base, muts)| DamageCase { base, muts })
        .boxed()
}

const UNIT: usize = 10 * 1024 * 1024;

struct Dir {
    wal: Vec<std::path::PathBuf>,
    index: Option<std::path::PathBuf>,
    marker: Option<std::path::PathBuf>,
    /// (file idx, absolute offset of a header, payload length guess)
    headers: Vec<(usize, u64)>,
}

fn scan_dir(dir: &std::path::Path, topics: &[String]) -> Dir {
    let mut d = Dir { wal: Vec::new(), index: None, marker: None, headers: Vec::new() };
    let mut names: Vec<_> = std::fs::read_dir(dir).map(|rd| rd.filter_map(|e| e.ok()).map(|e| e.path()).collect::<Vec<_>>()).unwrap_or_default();
    names.sort();
    for p in names {
        let n = p.file_name().map(|x| x.to_string_lossy().into_owned()).unwrap_or_default();
        if !n.is_empty() && n.bytes().all(|c| c.is_ascii_digit()) {
            d.wal.push(p);
        } else if n == "read_offset_idx_index.db" {
            d.index = Some(p);
        } else if n == "topic_clean_index.db" {
            d.marker = Some(p);
        }
    }
    // headers: find the owner strings in the non-zero units
    use std::io::{Read, Seek, SeekFrom};
    for (fi, p) in d.wal.iter().enumerate() {
        let Ok(mut f) = std::fs::File::open(p) else { continue };
        let len = f.metadata().map(|m| m.len()).unwrap_or(0) as usize;
        let mut u = 0usize;
        while u * UNIT < len && u < 100 {
            let mut probe = [0u8; 256];
            if f.seek(SeekFrom::Start((u * UNIT) as u64)).is_err() || f.read_exact(&mut probe).is_err() {
                break;
            }
            if probe.iter().take(8).all(|b| *b == 0) {
                u += 1;
                continue;
            }
            // which topic? where does its name sit inside a header?
            let mut name_off = None;
            for t in topics {
                if let Some(pos) = find(&probe, t.as_bytes()) {
                    name_off = Some((t.clone(), pos));
                    break;
                }
            }
            if let Some((t, off)) = name_off {
                let mut buf = vec![0u8; UNIT.min(len - u * UNIT)];
                if f.seek(SeekFrom::Start((u * UNIT) as u64)).is_ok() && f.read_exact(&mut buf).is_ok() {
                    let mut from = 0usize;
                    while let Some(pos) = find(&buf[from..], t.as_bytes()) {
                        let abs = from + pos;
                        if abs >= off {
                            d.headers.push((fi, (u * UNIT + abs - off) as u64));
                        }
                        from = abs + t.len();
                        if d.headers.len() > 5000 {
                            break;
                        }
                    }
                }
            } else {
                d.headers.push((fi, (u * UNIT) as u64));
            }
            u += 1;
        }
    }
    d
}

fn find(h: &[u8], n: &[u8]) -> Option<usize> {
    if n.is_empty() || h.len() < n.len() {
        return None;
    }
    h.windows(n.len()).position(|w| w == n)
}

fn resolve(d: &Dir, t: &Target) -> Option<(std::path::PathBuf, u64)> {
    match t {
        Target::Header { k, delta } => {
            if d.headers.is_empty() {
                return None;
            }
            let (fi, off) = d.headers[idx(*k, d.headers.len())];
            Some((d.wal[fi].clone(), off + *delta as u64))
        }
        Target::Payload { k, off } => {
            if d.headers.is_empty() {
                return None;
            }
            let (fi, h) = d.headers[idx(*k, d.headers.len())];
            Some((d.wal[fi].clone(), h + 256 + *off as u64))
        }
        Target::WalAny { pos } => {
            let p = d.wal.first()?.clone();
            // the allocated part: up to the last header plus a bit
            let max = d.headers.iter().map(|(_, o)| *o).max().unwrap_or(0) + 70_000;
            Some((p, *pos as u64 % max.max(1)))
        }
        Target::Index { pos } => {
            let p = d.index.clone()?;
            let len = std::fs::metadata(&p).map(|m| m.len()).unwrap_or(0);
            if len == 0 {
                return None;
            }
            Some((p, *pos as u64 % len))
        }
        Target::Marker { pos } => {
            let p = d.marker.clone()?;
            let len = std::fs::metadata(&p).map(|m| m.len()).unwrap_or(0);
            if len == 0 {
                return None;
            }
            Some((p, *pos as u64 % len))
        }
    }
}

fn rw_byte(p: &std::path::Path, off: u64, f: impl Fn(u8) -> u8) -> bool {
    use std::os::unix::fs::FileExt;
    let Ok(file) = std::fs::OpenOptions::new().read(true).write(true).open(p) else { return false };
    let mut b = [0u8; 1];
    if file.read_at(&mut b, off).unwrap_or(0) != 1 {
        return false;
    }
    let n = f(b[0]);
    file.write_at(&[n], off).is_ok() && n != b[0]
}

/// apply one mutation; returns a feature label when it changed something
fn apply_mutation(dir: &std::path::Path, d: &Dir, m: &Mutation) -> Option<String> {
    use std::os::unix::fs::FileExt;
    let class = |t: &Target| match t {
        Target::Header { delta, .. } if *delta < 2 => "length_prefix",
        Target::Header { .. } => "header_body",
        Target::Payload { .. } => "payload",
        Target::WalAny { .. } => "wal_anywhere",
        Target::Index { .. } => "cursor_file",
        Target::Marker { .. } => "marker_file",
    };
    match m {
        Mutation::Flip { at, bit } => {
            let (p, off) = resolve(d, at)?;
            rw_byte(&p, off, |b| b ^ (1 << (bit % 8))).then(|| format!("flip_{}", class(at)))
        }
        Mutation::Set { at, val } => {
            let (p, off) = resolve(d, at)?;
            rw_byte(&p, off, |_| *val).then(|| format!("set_{}", class(at)))
        }
        Mutation::Zero { at, len } => {
            let (p, off) = resolve(d, at)?;
            let file = std::fs::OpenOptions::new().write(true).open(&p).ok()?;
            let flen = file.metadata().ok()?.len();
            let n = (*len as u64).min(flen.saturating_sub(off));
            if n == 0 {
                return None;
            }
            file.write_at(&vec![0u8; n as usize], off).ok()?;
            Some(format!("zero_{}", class(at)))
        }
        Mutation::TruncateAt { at } => {
            let (p, off) = resolve(d, at)?;
            let file = std::fs::OpenOptions::new().write(true).open(&p).ok()?;
            file.set_len(off).ok()?;
            Some(format!("truncate_at_{}", class(at)))
        }
        Mutation::TruncateTo { wal, len } => {
            let p = if *wal { d.wal.first()?.clone() } else { d.index.clone().or(d.marker.clone())? };
            let file = std::fs::OpenOptions::new().write(true).open(&p).ok()?;
            let flen = file.metadata().ok()?.len();
            file.set_len((*len as u64).min(flen)).ok()?;
            Some(if *wal { "truncate_wal".into() } else { "truncate_small_file".into() })
        }
        Mutation::Extend { wal, by } => {
            let p = if *wal { d.wal.first()?.clone() } else { d.index.clone().or(d.marker.clone())? };
            let file = std::fs::OpenOptions::new().write(true).open(&p).ok()?;
            let flen = file.metadata().ok()?.len();
            file.write_at(&vec![0xA5u8; *by as usize], flen).ok()?;
            Some(if *wal { "extend_wal".into() } else { "extend_small_file".into() })
        }
        Mutation::SwapUnits { a, b } => {
            let p = d.wal.first()?.clone();
            if a == b {
                return None;
            }
            let file = std::fs::OpenOptions::new().read(true).write(true).open(&p).ok()?;
            let mut x = vec![0u8; UNIT];
            let mut y = vec![0u8; UNIT];
            file.read_exact_at(&mut x, *a as u64 * UNIT as u64).ok()?;
            file.read_exact_at(&mut y, *b as u64 * UNIT as u64).ok()?;
            if x == y {
                return None;
            }
            file.write_at(&y, *a as u64 * UNIT as u64).ok()?;
            file.write_at(&x, *b as u64 * UNIT as u64).ok()?;
            Some("swap_units".into())
        }
        Mutation::Stray { kind } => {
            match kind % 7 {
                0 => std::fs::write(dir.join("read_offset_idx_index.db.tmp"), b"\x01\x02garbage").ok()?,
                1 => std::fs::write(dir.join("topic_clean_index.db.tmp"), vec![0xffu8; 40]).ok()?,
                2 => std::fs::write(dir.join("1"), b"").ok()?,
                3 => std::fs::create_dir(dir.join("17")).ok()?,
                4 => std::fs::write(dir.join("99999999999999"), payload::make(9, 9, 5000)).ok()?,
                5 => {
                    use std::os::unix::ffi::OsStrExt;
                    std::fs::write(dir.join(std::ffi::OsStr::from_bytes(b"\xff\xfe")), b"x").ok()?
                }
                _ => std::fs::write(dir.join("notes.txt"), b"hello").ok()?,
            }
            Some(format!("stray_{}", kind % 7))
        }
        Mutation::RemoveIndex => {
            std::fs::remove_file(d.index.clone()?).ok()?;
            Some("cursor_file_removed".into())
        }
        Mutation::RemoveMarker => {
            std::fs::remove_file(d.marker.clone()?).ok()?;
            Some("marker_file_removed".into())
        }
    }
}

pub struct DamageOutcome {
    pub features: BTreeSet<String>,
    pub violation: Option<String>,
    pub inconclusive: Option<String>,
    pub trace: Vec<String>,
}

fn member(tm: &TopicModel, t: u32, e: &Ent, allow_suffix: bool) -> bool {
    if tm.appended.iter().any(|id| same(e, id)) {
        return true;
    }
    if allow_suffix {
        for id in &tm.appended {
            if id.len > e.len && e.len > 0 && payload::hash_suffix(t, id.seq, id.len, id.len - e.len) == e.hash {
                return true;
            }
        }
    }
    false
}

pub fn run_damage(case: &DamageCase, excl: &BTreeSet<String>) -> DamageOutcome {
    let mut o = DamageOutcome { features: BTreeSet::new(), violation: None, inconclusive: None, trace: Vec::new() };
    let mut opts = RunOpts::default();
    opts.exclude = excl.clone();
    let mut run = match Run::new(&case.base.cfg, opts) {
        Ok(r) => r,
        Err(e) => {
            o.inconclusive = Some(e);
            return o;
        }
    };
    // 1) valid directory
    let mut res: Check = Ok(());
    'w: for aop in &case.base.ops {
        for s in run.expand(aop) {
            res = run.apply(&s);
            if res.is_err() {
                break 'w;
            }
        }
    }
    if res.is_ok() {
        // give the asynchronous marker persister a moment, then leave cleanly
        res = run.apply(&Step::Do(Op::Sleep { ms: 30 }));
    }
    if let Err(v) = res {
        if run.out.inconclusive.is_some() {
            o.inconclusive = run.out.inconclusive.clone();
        } else {
            o.features.insert("workload_diverged".into());
            o.trace.push(format!("workload diverged: {:?}: {}", v.oracle, v.msg));
        }
        let _ = run.finish();
        return o;
    }
    let t_open = std::time::Instant::now();
    if let Some(c) = run.child.take() {
        let code = c.exit(false);
        if code != Some(0) {
            o.inconclusive = Some(format!("clean exit failed: {:?}", code));
            return o;
        }
    }
    let _ = t_open;
    let dir = run.inst_dir();
    let topics = run.init.topics.clone();
    // 2) damage
    let mut changed = 0;
    for m in &case.muts {
        let d = scan_dir(&dir, &topics);
        if let Some(f) = apply_mutation(&dir, &d, m) {
            o.features.insert(f);
            changed += 1;
        }
    }
    if changed == 0 {
        o.features.insert("no_effective_mutation".into());
    }
    // 3) fresh process: open and read everything through every API
    let sp = SpawnOpts { timeout_ms: Some(60_000), ..Default::default() };
    let mut child = match ChildProc::spawn(&run.init, &sp) {
        Ok(c) => c,
        Err(e) => {
            o.inconclusive = Some(format!("spawn: {}", e));
            return o;
        }
    };
    let fatal = |r: &Resp, what: &str| -> Option<String> {
        match r {
            Resp::Panic(m) => Some(format!("{} panicked: {}", what, m)),
            Resp::Died(m) => Some(format!("the process died during {}: {}", what, m)),
            Resp::Timeout => Some(format!("{} did not return within 60 s (hang)", what)),
            _ => None,
        }
    };
    let open = run.open_op();
    let r = child.call(&open);
    o.trace.push(format!("open -> {}", r.short()));
    if let Some(m) = fatal(&r, "opening the damaged directory") {
        o.violation = Some(m);
        return o;
    }
    if let Resp::Err { .. } = r {
        // a clean refusal is acceptable
        o.features.insert("open_refused_cleanly".into());
        return o;
    }
    o.features.insert("opened".into());
    let nt = run.model.topics.len() as u32;
    for t in 0..nt {
        let tm = run.model.topics[t as usize].clone();
        let mut ops: Vec<Op> = vec![
            Op::Count { inst: 0, t },
            Op::BatchRead { inst: 0, t, budget: 0, ck: false, off: None },
            Op::ReadNext { inst: 0, t, ck: false },
            Op::BatchRead { inst: 0, t, budget: 1 << 20, ck: true, off: Some(0) },
            Op::BatchRead { inst: 0, t, budget: 4096, ck: false, off: Some(300) },
            Op::BatchRead { inst: 0, t, budget: u64::MAX, ck: false, off: Some(70_000) },
        ];
        for i in 0..(tm.appended.len() + 6) {
            ops.push(if i % 3 == 2 { Op::BatchRead { inst: 0, t, budget: 2000, ck: true, off: None } } else { Op::ReadNext { inst: 0, t, ck: true } });
        }
        ops.push(Op::BatchRead { inst: 0, t, budget: u64::MAX, ck: true, off: None });
        ops.push(Op::IsClean { inst: 0, t });
        ops.push(Op::Append { inst: 0, t, seq: 3_000_000 + t as u64, len: 40 });
        ops.push(Op::ReadNext { inst: 0, t, ck: true });
        for op in ops {
            let r = child.call(&op);
            if let Some(m) = fatal(&r, &format!("{:?}", op).chars().take(90).collect::<String>()) {
                o.trace.push(format!("{:?} -> {}", op, r.short()));
                o.violation = Some(m);
                return o;
            }
            let ents: Vec<Ent> = match &r {
                Resp::Some(e) => vec![e.clone()],
                Resp::List(v) => v.clone(),
                _ => vec![],
            };
            let stateless = matches!(op, Op::BatchRead { off: Some(_), .. });
            for (i, e) in ents.iter().enumerate() {
                let fresh = e.len == 40 && e.hash == payload::hash(&payload::make(t, 3_000_000 + t as u64, 40));
                if !fresh && !member(&tm, t, e, stateless && i == 0) {
                    o.trace.push(format!("{:?} -> {}", op, r.short()));
                    let foreign = run.model.topics.iter().enumerate().any(|(j, m)| j as u32 != t && m.appended.iter().any(|id| same(e, id)));
                    o.violation = Some(format!(
                        "{} returned a payload (len {}, head {}) that was never appended to topic {}{}",
                        format!("{:?}", op).chars().take(80).collect::<String>(),
                        e.len,
                        e.head,
                        t,
                        if foreign { " - it belongs to another topic" } else { "" }
                    ));
                    return o;
                }
                o.features.insert("payload_checked".into());
            }
        }
    }
    let code = child.exit(false);
    if code != Some(0) {
        o.violation = Some(format!("after reading the damaged directory the process did not exit cleanly: {:?}", code));
    }
    o
}

fn report(prop: &str, case: &DamageCase, o: DamageOutcome, excl: &BTreeSet<String>) -> CaseReport {
    let mut rep = CaseReport::default();
    rep.features = o.features.clone();
    rep.inconclusive = o.inconclusive.clone();
    let decoded = ["length_prefix", "header_body", "cursor_file", "marker_file", "truncate", "swap_units", "stray_", "extend"];
    rep.nontrivial = o.inconclusive.is_none() && !o.features.contains("workload_diverged") && o.features.iter().any(|f| decoded.iter().any(|d| f.contains(d)));
    if let Some(m) = &o.violation {
        rep.violation = Some((m.clone(), json!({"kind": "damage", "property": prop, "case": case, "exclude": excl, "message": m, "trace": o.trace, "repeat": 3})));
    }
    rep.sample = Some(json!({"cfg": case.base.cfg, "workload_ops": case.base.ops.len(), "mutations": case.muts, "features": o.features}));
    rep
}

pub fn replay(body: &Value) -> Result<Option<String>, String> {
    let case: DamageCase = serde_json::from_value(body.get("case").cloned().ok_or("no case")?).map_err(|e| e.to_string())?;
    let mut excl = BTreeSet::new();
    if let Some(a) = body.get("exclude").and_then(|x| x.as_array()) {
        for s in a {
            if let Some(s) = s.as_str() {
                excl.insert(s.to_string());
            }
        }
    }
    let o = run_damage(&case, &excl);
    if let Some(i) = o.inconclusive {
        return Err(i);
    }
    Ok(o.violation)
}

pub fn c11(ctx: &Ctx) {
    regress_and_probes(ctx);
    let excl = exclusions_for("C11");
    let q = ctx.tier == Tier::Quick;
    for (name, prof, nops, cases) in [("tiny", SizeProfile::Tiny, 5..40usize, if q { 1200 } else { 40_000 }), ("block", SizeProfile::Block, 4..14usize, if q { 100 } else { 6_000 })] {
        let prop = ctx.prop.clone();
        let excl2 = excl.clone();
        let nops2 = nops.clone();
        let s = Search {
            name: name.to_string(),
            strategy: Box::new(move || damage_strategy(prof, nops2.clone())),
            run: Box::new(move |case: &DamageCase| {
                // exclusion by construction for open findings (see known_findings.json)
                let mut c = case.clone();
                let mut dropped = 0u64;
                if excl2.contains("damaged-entry-header") {
                    let before = c.muts.len();
                    c.muts.retain(|m| !touches_header(m));
                    dropped = (before - c.muts.len()) as u64;
                    if c.muts.is_empty() {
                        c.muts.push(Mutation::Stray { kind: 6 });
                    }
                }
                let o = run_damage(&c, &excl2);
                let mut rep = report(&prop, &c, o, &excl2);
                if dropped > 0 {
                    rep.excluded.insert("damaged-entry-header".into(), dropped);
                }
                rep
            }),
            cases,
            workers: cores(),
            max_shrink_iters: 200,
            shrink_secs: 240,
        };
        run_search(ctx, &s);
    }
}

/// mutations that can change bytes of an entry header in a WAL file
pub fn touches_header(m: &Mutation) -> bool {
    let t = |t: &Target| matches!(t, Target::Header { .. } | Target::WalAny { .. });
    match m {
        Mutation::Flip { at, .. } | Mutation::Set { at, .. } | Mutation::Zero { at, .. } | Mutation::TruncateAt { at } => t(at) || matches!(at, Target::Payload { .. }) && matches!(m, Mutation::Zero { .. } | Mutation::TruncateAt { .. }),
        Mutation::SwapUnits { .. } => true,
        Mutation::TruncateTo { wal, .. } | Mutation::Extend { wal, .. } => *wal,
        Mutation::Stray { kind } => kind % 7 == 4,
        _ => false,
    }
}

//! E3 (H2 token scheduler): C05 concurrent producers / consumers, and the concurrent clause of C15.
//!
//! A case = sequential prefill (positions the writer near a block end and the cursor anywhere),
//! 2-4 thread programs, a schedule (which runnable thread continues at every yield point), then a
//! sequential drain. One registered thread runs at a time, so a case is replayable.
use super::*;
use crate::payload;
use crate::proto::*;
use proptest::prelude::*;
use serde::{Deserialize, Serialize};
use std::collections::HashMap;

#[derive(Clone, Debug, Serialize, Deserialize, PartialEq, Eq, Hash)]
pub enum CBudget {
    Zero,
    Bytes(u16),
    Max,
}

#[derive(Clone, Debug, Serialize, Deserialize, PartialEq, Eq, Hash)]
pub enum TOp {
    Append { t: u16, len: u16 },
    Batch { t: u16, lens: Vec<u16> },
    ReadNext { t: u16 },
    BatchRead { t: u16, budget: CBudget },
}

#[derive(Clone, Debug, Serialize, Deserialize, PartialEq, Eq, Hash)]
pub struct ConcCase {
    pub cfg: Cfg,
    /// sequential prefill (E1 abstract ops: appends and consuming reads)
    pub pre: Vec<AbsOp>,
    /// per topic: if Some(room), a filler append leaves exactly `room` bytes in the active block
    pub room: Vec<Option<u16>>,
    pub threads: Vec<Vec<TOp>>,
    /// (choice, run length) segments, expanded into one byte per yield point
    pub sched: Vec<(u8, u8)>,
    /// all producers first, consumers only in the drain (variant iv)
    pub producers_only: bool,
    pub drain: Vec<DrainStep>,
}

fn len_of(l: u16) -> u64 {
    // >= 8 bytes so that every payload is identified by its hash (tiny payloads collide)
    8 + l as u64
}

pub fn expand_sched(s: &[(u8, u8)]) -> Vec<u8> {
    let mut v = Vec::new();
    for (c, n) in s {
        for _ in 0..(*n).max(1) {
            v.push(*c);
            if v.len() >= 400 {
                return v;
            }
        }
    }
    v
}

pub fn top_strategy(producers_only: bool) -> BoxedStrategy<TOp> {
    let t = any::<u16>();
    let len = prop_oneof![4 => 0u16..600, 1 => 600u16..6000];
    if producers_only {
        prop_oneof![
            3 => (t.clone(), len.clone()).prop_map(|(t, len)| TOp::Append { t, len }),
            2 => (t.clone(), proptest::collection::vec(0u16..400, 2..=5)).prop_map(|(t, lens)| TOp::Batch { t, lens }),
        ]
        .boxed()
    } else {
        prop_oneof![
            4 => (t.clone(), len.clone()).prop_map(|(t, len)| TOp::Append { t, len }),
            2 => (t.clone(), proptest::collection::vec(0u16..400, 2..=5)).prop_map(|(t, lens)| TOp::Batch { t, lens }),
            5 => t.clone().prop_map(|t| TOp::ReadNext { t }),
            3 => (t.clone(), prop_oneof![1 => Just(CBudget::Zero), 3 => (0u16..3000).prop_map(CBudget::Bytes), 2 => Just(CBudget::Max)]).prop_map(|(t, budget)| TOp::BatchRead { t, budget }),
        ]
        .boxed()
    }
}

pub fn conc_strategy(max_threads: usize, max_ops: usize) -> BoxedStrategy<ConcCase> {
    let pre_mix = Mix { append: 30, batch: 10, batch_many: 0, read_next: 10, batch_read: 8, max_batch: 6, ..Mix::consuming() };
    (
        cfg_strategy(2, mode_strategy()),
        proptest::collection::vec(op_strategy(&pre_mix, SizeProfile::Tiny), 0..12),
        proptest::collection::vec(proptest::option::weighted(0.22, 0u16..3000), 2),
        any::<bool>().prop_flat_map(move |po| {
            (Just(po), proptest::collection::vec(proptest::collection::vec(top_strategy(po), 1..=max_ops), 2..=max_threads))
        }),
        proptest::collection::vec((0u8..4, 1u8..24), 0..40),
        drain_strategy(),
    )
        .prop_map(|(cfg, pre, room, (producers_only, threads), sched, drain)| ConcCase { cfg, pre, room, threads, sched, producers_only, drain })
        .boxed()
}

/// One topic whose writer sits a few hundred bytes before the end of its block with unread
/// entries in it, readers polling it and a producer whose first appends do not fit: the block is
/// sealed and a new one started while a reader is between its steps.
pub fn rotation_strategy() -> BoxedStrategy<ConcCase> {
    let small = prop_oneof![3 => (0u16..40).prop_map(Size::Tiny), 1 => (40u16..400).prop_map(Size::Tiny)];
    let reader = prop_oneof![
        5 => Just(TOp::ReadNext { t: 0 }),
        2 => prop_oneof![Just(CBudget::Zero), (0u16..2000).prop_map(CBudget::Bytes), Just(CBudget::Max)].prop_map(|budget| TOp::BatchRead { t: 0, budget }),
    ];
    let producer = prop_oneof![
        4 => (100u16..700).prop_map(|len| TOp::Append { t: 0, len }),
        1 => proptest::collection::vec(60u16..300, 2..=4).prop_map(|lens| TOp::Batch { t: 0, lens }),
    ];
    (
        cfg_strategy(1, mode_strategy()),
        proptest::collection::vec(small.prop_map(|size| AbsOp::Append { t: 0, size }), 1..4),
        0u16..500,
        proptest::collection::vec(reader.clone(), 2..6),
        proptest::collection::vec(producer, 1..4),
        proptest::option::weighted(0.4, proptest::collection::vec(reader, 1..4)),
        proptest::collection::vec((0u8..4, 1u8..5), 4..60),
        drain_strategy(),
    )
        .prop_map(|(mut cfg, pre, room, r1, p, r2, sched, drain)| {
            cfg.topics.truncate(1);
            let mut threads = vec![r1, p];
            if let Some(r2) = r2 {
                threads.push(r2);
            }
            ConcCase { cfg, pre, room: vec![Some(room)], threads, sched, producers_only: false, drain }
        })
        .boxed()
}

#[derive(Clone, Debug)]
struct Appended {
    id: EntId,
    /// producer: 0 = prefill, 1+k = thread k
    producer: usize,
    pidx: usize,
    batch: Option<usize>,
    /// position inside its batch
    bpos: usize,
}

#[derive(Clone, Debug)]
struct ReadObs {
    topic: u32,
    invoked: u64,
    returned: u64,
    ents: Vec<Ent>,
    what: String,
}

pub struct ConcOutcome {
    pub features: BTreeSet<String>,
    pub violation: Option<String>,
    pub count_violation: Option<String>,
    pub inconclusive: Option<String>,
    pub diverged: Option<String>,
    pub trace: Vec<String>,
    pub yields: u64,
    pub steps_pre: Vec<Step>,
}

/// Concrete thread programs (ops with sequence numbers) of a case.
pub fn concrete_threads(case: &ConcCase, nt: usize, seq0: u64) -> (Vec<Vec<Op>>, u64) {
    let mut seq = seq0;
    let mut out = Vec::new();
    for prog in &case.threads {
        let mut v = Vec::new();
        for op in prog {
            match op {
                TOp::Append { t, len } => {
                    v.push(Op::Append { inst: 0, t: idx(*t, nt) as u32, seq, len: len_of(*len) });
                    seq += 1;
                }
                TOp::Batch { t, lens } => {
                    v.push(Op::Batch { inst: 0, t: idx(*t, nt) as u32, seq0: seq, lens: lens.iter().map(|l| len_of(*l)).collect() });
                    seq += lens.len() as u64;
                }
                TOp::ReadNext { t } => v.push(Op::ReadNext { inst: 0, t: idx(*t, nt) as u32, ck: true }),
                TOp::BatchRead { t, budget } => {
                    let b = match budget {
                        CBudget::Zero => 0,
                        CBudget::Bytes(n) => *n as u64,
                        CBudget::Max => u64::MAX,
                    };
                    v.push(Op::BatchRead { inst: 0, t: idx(*t, nt) as u32, budget: b, ck: true, off: None });
                }
            }
        }
        out.push(v);
    }
    (out, seq)
}

pub fn run_conc(case: &ConcCase, schedule: &[u8], excl: &BTreeSet<String>) -> ConcOutcome {
    let mut o = ConcOutcome {
        features: BTreeSet::new(),
        violation: None,
        count_violation: None,
        inconclusive: None,
        diverged: None,
        trace: Vec::new(),
        yields: 0,
        steps_pre: Vec::new(),
    };
    let mut opts = RunOpts::default();
    opts.exclude = excl.clone();
    let mut run = match Run::new(&case.cfg, opts) {
        Ok(r) => r,
        Err(e) => {
            o.inconclusive = Some(e);
            return o;
        }
    };
    let nt = run.model.topics.len();
    // ---- sequential prefill, checked against the FIFO model (a divergence here is C01's business)
    let mut res: Check = Ok(());
    'pre: for aop in &case.pre {
        for s in run.expand(aop) {
            res = run.apply(&s);
            if res.is_err() {
                break 'pre;
            }
        }
    }
    if res.is_ok() {
        for t in 0..nt {
            if let Some(Some(room)) = case.room.get(t) {
                // leave exactly `room` bytes in the active block of topic t
                let tm = &run.model.topics[t];
                let (cur, limit) = if tm.has_writer { (tm.cur, tm.limit) } else { (0, BLOCK) };
                let free = limit.saturating_sub(cur);
                if free > HDR + *room as u64 + 8 {
                    let len = free - HDR - *room as u64;
                    let seq = 500_000 + t as u64;
                    res = run.apply(&Step::Do(Op::Append { inst: 0, t: t as u32, seq, len }));
                    if res.is_err() {
                        break;
                    }
                    o.features.insert("writer_near_block_end".into());
                }
            }
        }
    }
    o.steps_pre = run.out.steps.clone();
    if let Err(v) = res {
        if run.out.inconclusive.is_some() {
            o.inconclusive = run.out.inconclusive.clone();
        } else {
            o.diverged = Some(format!("prefill: {:?}: {}", v.oracle, v.msg));
        }
        o.trace = run.out.trace.clone();
        let _ = run.finish();
        return o;
    }
    // expected remaining prefill entries per topic (AtLeastOnce without restart: cursor certain)
    let mut appended: Vec<Vec<Appended>> = vec![Vec::new(); nt];
    for t in 0..nt {
        let tm = &run.model.topics[t];
        for (i, id) in tm.appended.iter().enumerate().skip(tm.consumed_max()) {
            appended[t].push(Appended { id: id.clone(), producer: 0, pidx: i, batch: None, bpos: 0 });
        }
    }
    // ---- concurrent phase
    let (threads, _) = concrete_threads(case, nt, 1_000);
    let conc = Op::Conc { inst: 0, threads: threads.clone(), schedule: schedule.to_vec() };
    let resp = run.child.as_mut().unwrap().call(&conc);
    let results = match resp {
        Resp::Conc { results, yields } => {
            o.yields = yields;
            results
        }
        Resp::Timeout => {
            o.inconclusive = Some("watchdog during the concurrent phase".into());
            let _ = run.finish();
            return o;
        }
        Resp::Panic(m) => {
            o.violation = Some(format!("engine panicked during the concurrent phase: {}", m));
            run.child = None;
            let _ = run.finish();
            return o;
        }
        other => {
            o.violation = Some(format!("concurrent phase did not complete: {}", other.short()));
            run.child = None;
            let _ = run.finish();
            return o;
        }
    };
    let mut cache: HashMap<(u32, u64, u64), u64> = HashMap::new();
    let mut erred: Vec<(u32, EntId)> = Vec::new();
    let mut reads: Vec<ReadObs> = Vec::new();
    let mut batch_ctr = 0usize;
    let mut pidx = vec![0usize; threads.len()];
    // results sorted by invocation stamp; per-thread order is program order
    let mut by_thread: Vec<Vec<&ConcRes>> = vec![Vec::new(); threads.len()];
    for r in &results {
        by_thread[r.thread].push(r);
    }
    for (th, rs) in by_thread.iter_mut().enumerate() {
        rs.sort_by_key(|r| r.idx);
        for r in rs.iter() {
            let op = &threads[th][r.idx];
            o.trace.push(format!("T{}#{} [{}..{}] {:?} -> {}", th, r.idx, r.invoked, r.returned, short_op(op), r.resp.short()));
            match (op, &r.resp) {
                (Op::Append { t, seq, len, .. }, Resp::Hashes(_)) => {
                    appended[*t as usize].push(Appended { id: ent_id(*t, *seq, *len, &mut cache), producer: 1 + th, pidx: pidx[th], batch: None, bpos: 0 });
                    pidx[th] += 1;
                }
                (Op::Batch { t, seq0, lens, .. }, Resp::Hashes(_)) => {
                    for (i, l) in lens.iter().enumerate() {
                        appended[*t as usize].push(Appended { id: ent_id(*t, seq0 + i as u64, *l, &mut cache), producer: 1 + th, pidx: pidx[th], batch: Some(batch_ctr), bpos: i });
                        pidx[th] += 1;
                    }
                    batch_ctr += 1;
                    o.features.insert("concurrent_batch_append".into());
                }
                (Op::Append { t, seq, len, .. }, Resp::Err { kind, .. }) => {
                    erred.push((*t, ent_id(*t, *seq, *len, &mut cache)));
                    o.features.insert(format!("append_err_{}", kind));
                }
                (Op::Batch { t, seq0, lens, .. }, Resp::Err { kind, .. }) => {
                    for (i, l) in lens.iter().enumerate() {
                        erred.push((*t, ent_id(*t, seq0 + i as u64, *l, &mut cache)));
                    }
                    o.features.insert(format!("batch_err_{}", kind));
                }
                (Op::ReadNext { t, .. }, Resp::Some(e)) => reads.push(ReadObs { topic: *t, invoked: r.invoked, returned: r.returned, ents: vec![e.clone()], what: format!("T{}#{} read_next", th, r.idx) }),
                (Op::ReadNext { t, .. }, Resp::None) => reads.push(ReadObs { topic: *t, invoked: r.invoked, returned: r.returned, ents: vec![], what: format!("T{}#{} read_next", th, r.idx) }),
                (Op::BatchRead { t, budget, .. }, Resp::List(v)) => {
                    if v.len() > MAX_BATCH {
                        o.violation = Some(format!("concurrent batch read returned {} entries", v.len()));
                    }
                    let total: u128 = v.iter().map(|e| e.len as u128).sum();
                    if total > *budget as u128 && v.len() != 1 {
                        o.features.insert("budget_exceeded_concurrently".into());
                    }
                    reads.push(ReadObs { topic: *t, invoked: r.invoked, returned: r.returned, ents: v.clone(), what: format!("T{}#{} batch_read(budget {})", th, r.idx, budget) })
                }
                (op, Resp::Err { kind, msg }) => {
                    o.violation = Some(format!("T{}#{} {:?} returned Err({} {}) during the concurrent phase", th, r.idx, short_op(op), kind, msg));
                }
                (op, other) => {
                    o.violation = Some(format!("T{}#{} {:?}: unexpected response {}", th, r.idx, short_op(op), other.short()));
                }
            }
        }
    }
    if o.violation.is_some() {
        let _ = run.finish();
        return o;
    }
    // ---- quiescent count probe (C15 concurrent clause)
    let mut delivered_so_far = vec![0usize; nt];
    for r in &reads {
        delivered_so_far[r.topic as usize] += r.ents.len();
    }
    for t in 0..nt {
        let resp = run.child.as_mut().unwrap().call(&Op::Count { inst: 0, t: t as u32 });
        if let Resp::Count(c) = resp {
            let exp = appended[t].len() as i64 - delivered_so_far[t] as i64;
            if c as i64 != exp {
                o.count_violation = Some(format!(
                    "after the concurrent phase (all threads joined) the entry count of topic {} is {} but {} entries were appended and {} returned by consuming reads (expected {})",
                    t,
                    c,
                    appended[t].len(),
                    delivered_so_far[t],
                    exp
                ));
            }
        }
    }
    // ---- sequential drain (stamps continue after the concurrent phase)
    let mut clock = results.iter().map(|r| r.returned).max().unwrap_or(0) + 10;
    let mut k = 0usize;
    for t in 0..nt as u32 {
        let mut empties = 0;
        let mut guard = appended[t as usize].len() * 2 + 60;
        while empties < 2 && guard > 0 {
            guard -= 1;
            let ch = if case.drain.is_empty() { DrainStep::Next } else { case.drain[k % case.drain.len()].clone() };
            k += 1;
            let op = match ch {
                DrainStep::Next => Op::ReadNext { inst: 0, t, ck: true },
                DrainStep::Batch(b) => {
                    let budget = match b {
                        Budget::Zero => 0,
                        Budget::One => 1,
                        Budget::Bytes(n) => n as u64,
                        Budget::Max => u64::MAX,
                        _ => 1000,
                    };
                    Op::BatchRead { inst: 0, t, budget, ck: true, off: None }
                }
            };
            let resp = run.child.as_mut().unwrap().call(&op);
            let ents = match resp {
                Resp::Some(e) => vec![e],
                Resp::None => vec![],
                Resp::List(v) => v,
                Resp::Timeout => {
                    o.inconclusive = Some("watchdog during the drain".into());
                    let _ = run.finish();
                    return o;
                }
                other => {
                    o.violation = Some(format!("drain read failed: {:?} -> {}", short_op(&op), other.short()));
                    let _ = run.finish();
                    return o;
                }
            };
            if ents.is_empty() {
                empties += 1;
            } else {
                empties = 0;
            }
            reads.push(ReadObs { topic: t, invoked: clock, returned: clock + 1, ents, what: "drain".into() });
            clock += 2;
        }
    }
    let _ = run.finish();
    // ---- oracle
    // identical payloads are matched in invocation order (see by_key below)
    reads.sort_by_key(|r| r.invoked);
    // features
    let conc_reads: Vec<&ReadObs> = reads.iter().filter(|r| r.what != "drain").collect();
    'ov: for (i, a) in conc_reads.iter().enumerate() {
        for b in conc_reads.iter().skip(i + 1) {
            if a.topic == b.topic && a.invoked < b.returned && b.invoked < a.returned {
                o.features.insert("overlapping_consuming_reads".into());
                if !a.ents.is_empty() && !b.ents.is_empty() {
                    o.features.insert("overlapping_reads_both_delivered".into());
                    break 'ov;
                }
            }
        }
    }
    if case.producers_only {
        o.features.insert("producers_only".into());
        // do appends of different threads overlap?
        let apps: Vec<&ConcRes> = results.iter().filter(|r| matches!(r.resp, Resp::Hashes(_))).collect();
        for (i, a) in apps.iter().enumerate() {
            for b in apps.iter().skip(i + 1) {
                if a.thread != b.thread && a.invoked < b.returned && b.invoked < a.returned {
                    o.features.insert("overlapping_appends".into());
                }
            }
        }
    }
    for t in 0..nt {
        // identification map
        // identical payloads (e.g. several empty entries) share a key: a delivered copy is
        // matched to the earliest appended copy not yet accounted for
        let mut by_key: HashMap<(u64, u64), Vec<usize>> = HashMap::new();
        for (i, a) in appended[t].iter().enumerate() {
            by_key.entry((a.id.len, a.id.hash)).or_default().push(i);
        }
        let mut seen: Vec<Option<(usize, usize)>> = vec![None; appended[t].len()]; // (read index, position)
        let treads: Vec<(usize, &ReadObs)> = reads.iter().enumerate().filter(|(_, r)| r.topic as usize == t).collect();
        // per read: mapped entries
        let mut mapped: Vec<Vec<usize>> = Vec::new();
        for (ri, r) in &treads {
            let mut m = Vec::new();
            for (pos, e) in r.ents.iter().enumerate() {
                let cand = by_key.get(&(e.len, e.hash)).map(|v| v.iter().copied().find(|i| seen[*i].is_none()).unwrap_or(v[0]));
                match cand.as_ref() {
                    Some(ai) => {
                        if let Some((r0, p0)) = seen[*ai] {
                            o.violation = Some(format!(
                                "topic {}: entry (producer {}, #{}; len {}) was delivered twice: by {} (element {}) and by {} (element {})",
                                t,
                                prod_name(appended[t][*ai].producer),
                                appended[t][*ai].pidx,
                                e.len,
                                reads[r0].what,
                                p0,
                                r.what,
                                pos
                            ));
                            return o;
                        }
                        seen[*ai] = Some((*ri, pos));
                        m.push(*ai);
                    }
                    None => {
                        let failed = erred.iter().any(|(et, id)| *et as usize == t && id.len == e.len && id.hash == e.hash);
                        o.violation = Some(if failed {
                            format!("topic {}: {} delivered an entry (len {}) of an append that returned Err", t, r.what, e.len)
                        } else {
                            format!("topic {}: {} delivered bytes that were never appended to this topic (len {}, head {})", t, r.what, e.len, e.head)
                        });
                        return o;
                    }
                }
            }
            mapped.push(m);
        }
        // exactly once: everything delivered
        if let Some(ai) = seen.iter().position(|s| s.is_none()) {
            let a = &appended[t][ai];
            o.violation = Some(format!(
                "topic {}: entry (producer {}, #{}; len {}) was appended successfully but no consuming read returned it, and the final drain came back empty ({} of {} entries delivered)",
                t,
                prod_name(a.producer),
                a.pidx,
                a.id.len,
                seen.iter().filter(|s| s.is_some()).count(),
                appended[t].len()
            ));
            return o;
        }
        // Entries whose payload is not unique in the topic (e.g. several empty entries) are
        // interchangeable: they take part in the exactly-once count above, but no order is
        // derived from them.
        let ambiguous: Vec<bool> = appended[t].iter().map(|a| by_key.get(&(a.id.len, a.id.hash)).map(|v| v.len() > 1).unwrap_or(false)).collect();
        if ambiguous.iter().any(|x| *x) {
            o.features.insert("identical_payloads_present".into());
        }
        // inside one read: per-producer order, batch contiguity
        for (k, m) in mapped.iter().enumerate() {
            let r = treads[k].1;
            let mut last: HashMap<usize, usize> = HashMap::new();
            for (pos, ai) in m.iter().enumerate() {
                let a = &appended[t][*ai];
                if ambiguous[*ai] {
                    continue;
                }
                if let Some(prev) = last.get(&a.producer) {
                    if a.pidx <= *prev {
                        o.violation = Some(format!("topic {}: {} returned entries of producer {} out of order (#{} after #{})", t, r.what, prod_name(a.producer), a.pidx, prev));
                        return o;
                    }
                }
                last.insert(a.producer, a.pidx);
                if let Some(b) = a.batch {
                    if pos > 0 {
                        let p = &appended[t][m[pos - 1]];
                        let cont = p.batch == Some(b) && p.bpos + 1 == a.bpos;
                        if a.bpos != 0 && !cont && !ambiguous[m[pos - 1]] {
                            o.violation = Some(format!("topic {}: {} returned entry {} of a batch of producer {} without its predecessor directly before it (batch not contiguous)", t, r.what, a.bpos, prod_name(a.producer)));
                            return o;
                        }
                    }
                }
            }
        }
        // real-time order between reads: R1 returned before R2 was invoked => per producer order
        for (k1, m1) in mapped.iter().enumerate() {
            for (k2, m2) in mapped.iter().enumerate() {
                let (r1, r2) = (treads[k1].1, treads[k2].1);
                if r1.returned < r2.invoked {
                    for a1 in m1 {
                        for a2 in m2 {
                            let (x, y) = (&appended[t][*a1], &appended[t][*a2]);
                            if x.producer == y.producer && x.pidx > y.pidx && !ambiguous[*a1] && !ambiguous[*a2] {
                                o.violation = Some(format!(
                                    "topic {}: {} [{}..{}] returned entry #{} of producer {} and the later read {} [{}..{}] returned its earlier entry #{}",
                                    t,
                                    r1.what,
                                    r1.invoked,
                                    r1.returned,
                                    x.pidx,
                                    prod_name(x.producer),
                                    r2.what,
                                    r2.invoked,
                                    r2.returned,
                                    y.pidx
                                ));
                                return o;
                            }
                        }
                    }
                }
            }
        }
        // producers-only variant: the drained sequence is the engine's serialisation
        if case.producers_only {
            let seq: Vec<usize> = mapped.iter().flatten().copied().collect();
            for w in seq.windows(2) {
                let (p, a) = (&appended[t][w[0]], &appended[t][w[1]]);
                if let Some(b) = a.batch {
                    if a.bpos != 0 && !(p.batch == Some(b) && p.bpos + 1 == a.bpos) && !ambiguous[w[0]] && !ambiguous[w[1]] {
                        o.violation = Some(format!("topic {}: in the drained sequence a batch of producer {} is not one contiguous run (entry {} follows a foreign entry)", t, prod_name(a.producer), a.bpos));
                        return o;
                    }
                }
            }
        }
    }
    o
}

fn prod_name(p: usize) -> String {
    if p == 0 {
        "prefill".into()
    } else {
        format!("T{}", p - 1)
    }
}

fn short_op(op: &Op) -> String {
    let s = format!("{:?}", op);
    s.chars().take(110).collect()
}

fn conc_report(prop: &str, case: &ConcCase, schedule: &[u8], o: &ConcOutcome, count_only: bool, excl: &BTreeSet<String>) -> CaseReport {
    let mut rep = CaseReport::default();
    rep.features = o.features.clone();
    rep.inconclusive = o.inconclusive.clone();
    if o.diverged.is_some() {
        rep.features.insert("prefill_diverged".into());
    }
    rep.nontrivial = o.inconclusive.is_none()
        && o.diverged.is_none()
        && if count_only {
            o.yields > 0 && (o.features.contains("overlapping_consuming_reads") || o.features.contains("overlapping_appends") || o.features.contains("concurrent_batch_append"))
        } else {
            o.features.contains("overlapping_reads_both_delivered") || (o.features.contains("overlapping_consuming_reads") && o.features.contains("writer_near_block_end")) || o.features.contains("overlapping_appends")
        };
    let v = if count_only { o.count_violation.clone() } else { o.violation.clone() };
    if let Some(msg) = v {
        let body = json!({
            "kind": "conc",
            "property": prop,
            "count_only": count_only,
            "case": case,
            "schedule": schedule,
            "exclude": excl,
            "message": msg,
            "trace": o.trace,
        });
        rep.violation = Some((msg, body));
    }
    rep.sample = Some(json!({
        "cfg": case.cfg,
        "prefill_steps": o.steps_pre.len(),
        "threads": case.threads,
        "schedule_bytes": schedule.len(),
        "yield_points_passed": o.yields,
        "trace_head": o.trace.iter().take(10).collect::<Vec<_>>(),
        "features": o.features,
    }));
    rep
}

pub fn replay(body: &Value) -> Result<Option<String>, String> {
    let case: ConcCase = serde_json::from_value(body.get("case").cloned().ok_or("no case")?).map_err(|e| e.to_string())?;
    let schedule: Vec<u8> = serde_json::from_value(body.get("schedule").cloned().ok_or("no schedule")?).map_err(|e| e.to_string())?;
    let count_only = body.get("count_only").and_then(|x| x.as_bool()).unwrap_or(false);
    let mut excl = BTreeSet::new();
    if let Some(a) = body.get("exclude").and_then(|x| x.as_array()) {
        for s in a {
            if let Some(s) = s.as_str() {
                excl.insert(s.to_string());
            }
        }
    }
    let o = run_conc(&case, &schedule, &excl);
    if let Some(i) = o.inconclusive {
        return Err(i);
    }
    if let Some(d) = o.diverged {
        return Err(d);
    }
    Ok(if count_only { o.count_violation } else { o.violation })
}

pub fn conc_search(ctx: &Ctx, name: &str, cases: usize, max_threads: usize, max_ops: usize, count_only: bool) {
    conc_search_with(ctx, name, cases, move || conc_strategy(max_threads, max_ops), count_only)
}

pub fn conc_search_with(ctx: &Ctx, name: &str, cases: usize, strategy: impl Fn() -> BoxedStrategy<ConcCase> + Sync + Send + 'static, count_only: bool) {
    let prop = ctx.prop.clone();
    let excl = exclusions_for(&ctx.prop);
    let s = Search {
        name: name.to_string(),
        strategy: Box::new(strategy),
        run: Box::new(move |case: &ConcCase| {
            let schedule = expand_sched(&case.sched);
            let o = run_conc(case, &schedule, &excl);
            conc_report(&prop, case, &schedule, &o, count_only, &excl)
        }),
        cases,
        workers: cores(),
        max_shrink_iters: 300,
        shrink_secs: 240,
    };
    run_search(ctx, &s);
}

/// Preemption-bounded exhaustive exploration for two-thread programs: every schedule that
/// starts with either thread and switches threads at most `max_switches` times, at every
/// combination of yield-point positions.
pub fn conc_exhaustive(ctx: &Ctx, name: &str, programs: usize, max_switches: usize, max_runs_per_program: usize) {
    conc_exhaustive_with(ctx, name, programs, max_switches, max_runs_per_program, conc_strategy(2, 3), false)
}

/// two threads (one read, one append that does not fit into the writer's block) on one topic with
/// unread entries: small enough for every schedule with at most two switches to be run
pub fn rotation_pair_strategy() -> BoxedStrategy<ConcCase> {
    (rotation_strategy(), any::<bool>())
        .prop_map(|(mut c, batch_read)| {
            c.threads.truncate(2);
            c.threads[0].truncate(1);
            if batch_read {
                c.threads[0] = vec![TOp::BatchRead { t: 0, budget: CBudget::Max }];
            } else {
                c.threads[0] = vec![TOp::ReadNext { t: 0 }];
            }
            c.threads[1].truncate(1);
            c.pre.truncate(2);
            c
        })
        .boxed()
}

pub fn conc_exhaustive_with(ctx: &Ctx, name: &str, programs: usize, max_switches: usize, max_runs_per_program: usize, strat: BoxedStrategy<ConcCase>, keep_room: bool) {
    let prop = ctx.prop.clone();
    let excl = exclusions_for(&ctx.prop);
    let t0 = std::time::Instant::now();
    let mut runner = proptest::test_runner::TestRunner::new_with_rng(
        proptest::test_runner::Config { failure_persistence: None, ..Default::default() },
        rng_for(ctx.seed, &ctx.prop, name, 0),
    );
    let mut cases: Vec<ConcCase> = Vec::new();
    while cases.len() < programs {
        let Ok(tree) = strat.new_tree(&mut runner) else { continue };
        let mut c = tree.current();
        c.producers_only = false;
        c.sched.clear();
        // the 10 MiB block filler dominates the cost of a run: keep it for every fourth program
        if !keep_room && cases.len() % 4 != 0 {
            c.room = vec![None, None];
        }
        cases.push(c);
    }
    let total_runs = std::sync::atomic::AtomicU64::new(0);
    let complete = std::sync::atomic::AtomicU64::new(0);
    let next = std::sync::atomic::AtomicUsize::new(0);
    std::thread::scope(|sc| {
        for _ in 0..cores() {
            sc.spawn(|| loop {
                let i = next.fetch_add(1, std::sync::atomic::Ordering::SeqCst);
                if i >= cases.len() || ctx.stop.load(std::sync::atomic::Ordering::SeqCst) {
                    return;
                }
                let case = &cases[i];
                // learn the number of yield points from a run-to-completion schedule
                let base = run_conc(case, &[], &excl);
                if base.inconclusive.is_some() || base.diverged.is_some() {
                    continue;
                }
                let y = (base.yields as usize + 8).min(120);
                let h = str_hash(&serde_json::to_string(case).unwrap_or_default());
                // enumerate switch position sets
                let mut scheds: Vec<Vec<u8>> = Vec::new();
                let mut pos: Vec<usize> = Vec::new();
                fn rec(start: usize, y: usize, left: usize, pos: &mut Vec<usize>, out: &mut Vec<Vec<usize>>) {
                    out.push(pos.clone());
                    if left == 0 {
                        return;
                    }
                    for p in start..y {
                        pos.push(p);
                        rec(p + 1, y, left - 1, pos, out);
                        pos.pop();
                    }
                }
                let mut sets = Vec::new();
                rec(0, y, max_switches, &mut pos, &mut sets);
                for first in 0..2u8 {
                    for set in &sets {
                        let mut s = Vec::with_capacity(y);
                        let mut cur = first;
                        for i in 0..y {
                            if set.contains(&i) {
                                cur = 1 - cur;
                            }
                            s.push(cur);
                        }
                        scheds.push(s);
                    }
                }
                let all = scheds.len();
                if scheds.len() > max_runs_per_program {
                    // deterministic thinning
                    let mut keyed: Vec<(u64, Vec<u8>)> = scheds.into_iter().enumerate().map(|(i, s)| (splitmix(h ^ i as u64), s)).collect();
                    keyed.sort();
                    keyed.truncate(max_runs_per_program);
                    scheds = keyed.into_iter().map(|(_, s)| s).collect();
                } else {
                    complete.fetch_add(1, std::sync::atomic::Ordering::Relaxed);
                }
                let _ = all;
                for (si, s) in scheds.iter().enumerate() {
                    if ctx.stop.load(std::sync::atomic::Ordering::SeqCst) {
                        return;
                    }
                    let o = run_conc(case, s, &excl);
                    total_runs.fetch_add(1, std::sync::atomic::Ordering::Relaxed);
                    let mut rep = conc_report(&prop, case, s, &o, false, &excl);
                    rep.features.insert("exhaustive_schedule_run".into());
                    if si % 50 != 0 {
                        rep.sample = None;
                    }
                    ctx.record(splitmix(h ^ (si as u64).wrapping_mul(0x9E37)), &rep);
                    if let Some((msg, body)) = rep.violation {
                        if !ctx.stop.swap(true, std::sync::atomic::Ordering::SeqCst) {
                            ctx.violation(&msg, &body);
                        }
                        return;
                    }
                }
            });
        }
    });
    ctx.searches.lock().unwrap().push(json!({
        "name": name,
        "kind": "preemption-bounded schedule enumeration (2 threads)",
        "programs": programs,
        "programs_enumerated_completely": complete.load(std::sync::atomic::Ordering::Relaxed),
        "max_switches": max_switches,
        "schedules_run": total_runs.load(std::sync::atomic::Ordering::Relaxed),
        "wall_s": (t0.elapsed().as_secs_f64() * 10.0).round() / 10.0,
    }));
}

pub fn c05(ctx: &Ctx) {
    regress_and_probes(ctx);
    let q = ctx.tier == Tier::Quick;
    conc_search(ctx, "random-schedules", if q { 1400 } else { 80_000 }, 4, 10, false);
    conc_exhaustive(ctx, "two-thread-preemption-bounded", if q { 6 } else { 120 }, 2, if q { 220 } else { 6000 });
    conc_search_with(ctx, "rotation-under-reader", if q { 160 } else { 40_000 }, rotation_strategy, false);
    conc_exhaustive_with(ctx, "rotation-pair-preemption-bounded", if q { 2 } else { 60 }, 2, if q { 160 } else { 4000 }, rotation_pair_strategy(), true);
    let _ = payload::hash;
}

/// C15's concurrent clause: counts at quiescence after a scheduled producer/consumer race.
pub fn c15_concurrent(ctx: &Ctx, cases: usize) {
    conc_search(ctx, "concurrent-quiescent-count", cases, 3, 8, true);
}

//! C14: a namespace key always maps to a private directory strictly inside the data dir.
use super::*;
use crate::child::*;
use crate::proto::*;
use proptest::prelude::*;
use serde::{Deserialize, Serialize};

#[derive(Clone, Debug, Serialize, Deserialize, PartialEq, Eq, Hash)]
pub struct KeyCase {
    pub keys: Vec<(String, Ctor)>,
    pub fd: bool,
}

fn fragment() -> BoxedStrategy<String> {
    prop_oneof![
        6 => "[A-Za-z0-9]{1,8}",
        3 => "[-_.]{1,3}",
        3 => Just(".".to_string()),
        3 => Just("..".to_string()),
        2 => Just("...".to_string()),
        3 => Just("/".to_string()),
        1 => Just("\\".to_string()),
        1 => Just(" ".to_string()),
        1 => Just("\t".to_string()),
        1 => Just("\u{0}".to_string()),
        1 => "[\u{1}-\u{1f}]{1,2}",
        2 => "[À-ÿĀ-ſ一-龥]{1,4}",
        1 => Just("🙂".to_string()),
        1 => Just("~".to_string()),
        1 => Just(":".to_string()),
    ]
    .boxed()
}

fn key_strategy() -> BoxedStrategy<String> {
    let specials: Vec<&'static str> = vec![
        "", ".", "..", "...", "....", "./x", "../x", "a/../b", "a/..", "../..", "..\\..", "/", "//", "/etc", "/tmp/x", "-", "_", "__", "._.", ". .", " ", "..\u{0}", "\u{0}", "x/.", ".x", "x.", "..x", "x..",
        "~", "tenant-123", "ns_1", "k",
    ];
    prop_oneof![
        4 => proptest::sample::select(specials).prop_map(|s| s.to_string()),
        6 => proptest::collection::vec(fragment(), 1..6).prop_map(|v| v.concat()),
        1 => (250usize..300, "[a-z.]").prop_map(|(n, c)| c.repeat(n)),
        1 => (1usize..40).prop_map(|n| ".".repeat(n)),
        1 => (1usize..20).prop_map(|n| "../".repeat(n)),
    ]
    .boxed()
}

fn ctor_strategy() -> BoxedStrategy<Ctor> {
    prop_oneof![
        3 => Just(Ctor::Builder),
        2 => Just(Ctor::BuilderEnvDir),
        2 => Just(Ctor::NewForKey),
        1 => Just(Ctor::WithConsistencyForKey),
        1 => Just(Ctor::WithConsistencyAndScheduleForKey),
        2 => Just(Ctor::NewEnvKey),
    ]
    .boxed()
}

fn nontrivial_key(k: &str) -> bool {
    k.split(|c| c == '/' || c == '\\').any(|c| !c.is_empty() && c.chars().all(|ch| ch == '.'))
        || k.contains('/')
        || k.contains('\\')
        || k.contains('\u{0}')
        || !k.is_ascii()
        || k.is_empty()
}

/// Ok(features) or Err(message)
fn check_one(child: &mut ChildProc, i: usize, key: &str, ctor: &Ctor, feats: &mut BTreeSet<String>, trace: &mut Vec<String>) -> Result<(), String> {
    let outer = format!("outer{}", i);
    let dir = format!("{}/data", outer);
    // the data dir exists before the instance is built (as with a configured data directory)
    let before = match child.call(&Op::Ls) {
        Resp::Ls(v) => v,
        other => return Err(format!("ls failed: {}", other.short())),
    };
    // env values cannot carry NUL (std::env::set_var aborts on them): outside the domain of the
    // env-based constructors
    let mut key_s = key.to_string();
    if matches!(ctor, Ctor::NewEnvKey) {
        key_s = key_s.replace('\u{0}', "");
    }
    let open = Op::Open { inst: 0, dir: dir.clone(), key: Some(key_s.clone()), mode: Mode::Strict, fsync: Fsync::Ms(1), ctor: ctor.clone() };
    let r = child.call(&open);
    trace.push(format!("open key={:?} ctor={:?} -> {}", key_s, ctor, r.short()));
    let opened = match &r {
        Resp::Ok => true,
        Resp::Err { .. } => {
            feats.insert("constructor_rejected_key".into());
            false
        }
        Resp::Panic(m) => return Err(format!("constructor panicked for key {:?} ({:?}): {}", key_s, ctor, m)),
        other => return Err(format!("constructor for key {:?}: {}", key_s, other.short())),
    };
    if opened {
        let a = child.call(&Op::Append { inst: 0, t: 0, seq: i as u64, len: 33 });
        let b = child.call(&Op::ReadNext { inst: 0, t: 0, ck: true });
        let _ = child.call(&Op::MarkClean { inst: 0, t: 0 });
        let _ = child.call(&Op::Sleep { ms: 20 });
        let _ = child.call(&Op::Close { inst: 0 });
        trace.push(format!("append -> {} read -> {}", a.short(), b.short()));
        for r in [&a, &b] {
            if let Resp::Panic(m) | Resp::Died(m) = r {
                return Err(format!("engine failed after opening key {:?}: {}", key_s, m));
            }
        }
    }
    let after = match child.call(&Op::Ls) {
        Resp::Ls(v) => v,
        other => return Err(format!("ls failed: {}", other.short())),
    };
    let prefix = format!("{}/", dir);
    let mut comps: BTreeSet<String> = BTreeSet::new();
    for (p, _sz, is_dir) in after.iter() {
        if before.iter().any(|(q, _, _)| q == p) {
            continue;
        }
        if *p == outer || *p == dir {
            continue; // the data dir itself (created on demand)
        }
        if !p.starts_with(&prefix) {
            return Err(format!(
                "key {:?} via {:?}: the instance created {:?}, which is outside the data directory {:?}",
                key_s, ctor, p, dir
            ));
        }
        let rest = &p[prefix.len()..];
        let c = rest.split('/').next().unwrap_or("");
        if !rest.contains('/') && !*is_dir {
            return Err(format!("key {:?} via {:?}: file {:?} was created directly in the data directory", key_s, ctor, p));
        }
        if c.is_empty() || c == "." || c == ".." {
            return Err(format!("key {:?} via {:?}: created {:?} with directory component {:?}", key_s, ctor, p, c));
        }
        comps.insert(c.to_string());
    }
    if comps.len() > 1 {
        return Err(format!("key {:?} via {:?}: files in several directories {:?}", key_s, ctor, comps));
    }
    if opened && comps.is_empty() {
        return Err(format!("key {:?} via {:?}: instance opened but no private directory appeared under {:?}", key_s, ctor, dir));
    }
    Ok(())
}

pub fn run_keys(prop: &str, case: &KeyCase) -> CaseReport {
    let mut rep = CaseReport::default();
    let scratch = Scratch::new(false);
    let init = Init { base: scratch.s(), fd_backend: case.fd, topics: vec!["t".into()], ack_log: None };
    let mut trace = Vec::new();
    let mut child = match ChildProc::spawn(&init, &SpawnOpts::default()) {
        Ok(c) => c,
        Err(e) => {
            rep.inconclusive = Some(e.to_string());
            return rep;
        }
    };
    for (i, (k, _)) in case.keys.iter().enumerate() {
        let _ = std::fs::create_dir_all(scratch.path.join(format!("outer{}/data", i)));
        if nontrivial_key(k) {
            rep.sub_nontrivial += 1;
        }
    }
    rep.sub_evaluations = case.keys.len().saturating_sub(1) as u64;
    for (i, (k, c)) in case.keys.iter().enumerate() {
        if let Err(m) = check_one(&mut child, i, k, c, &mut rep.features, &mut trace) {
            if m.contains("timed out") || m.contains("Timeout") {
                rep.inconclusive = Some(m);
            } else {
                rep.violation = Some((
                    format!("[Namespace] {}", m),
                    json!({"kind": "c14", "property": prop, "case": KeyCase { keys: vec![(k.clone(), c.clone())], fd: case.fd }, "message": m, "trace": trace}),
                ));
            }
            break;
        }
        if k.split('/').any(|c| !c.is_empty() && c.chars().all(|ch| ch == '.')) {
            rep.features.insert("dot_only_component".into());
        }
        if k.contains('/') {
            rep.features.insert("separator".into());
        }
        if k.contains('\u{0}') {
            rep.features.insert("nul".into());
        }
        if !k.is_ascii() {
            rep.features.insert("non_ascii".into());
        }
        if k.is_empty() {
            rep.features.insert("empty_key".into());
        }
        if k.len() > 255 {
            rep.features.insert("long_key".into());
        }
        rep.features.insert(format!("ctor_{:?}", c));
    }
    let _ = child.exit(true);
    rep.nontrivial = case.keys.first().map(|(k, _)| nontrivial_key(k)).unwrap_or(false);
    if rep.nontrivial && rep.sub_nontrivial > 0 {
        rep.sub_nontrivial -= 1;
    }
    rep.sample = Some(json!({"keys": case.keys.iter().take(6).collect::<Vec<_>>(), "trace": trace.iter().take(6).collect::<Vec<_>>()}));
    rep
}

pub fn replay(body: &Value) -> Result<Option<String>, String> {
    let case: KeyCase = serde_json::from_value(body.get("case").cloned().ok_or("no case")?).map_err(|e| e.to_string())?;
    let rep = run_keys("C14", &case);
    if let Some(i) = rep.inconclusive {
        return Err(i);
    }
    Ok(rep.violation.map(|v| v.0))
}

pub fn c14(ctx: &Ctx) {
    regress_and_probes(ctx);
    let q = ctx.tier == Tier::Quick;
    let prop = ctx.prop.clone();
    let s = Search {
        name: "keys".to_string(),
        strategy: Box::new(|| {
            (proptest::collection::vec((key_strategy(), ctor_strategy()), 6..=10), any::<bool>()).prop_map(|(keys, fd)| KeyCase { keys, fd }).boxed()
        }),
        run: Box::new(move |case: &KeyCase| run_keys(&prop, case)),
        cases: if q { 400 } else { 12_000 },
        workers: cores(),
        max_shrink_iters: 200,
        shrink_secs: 120,
    };
    run_search(ctx, &s);
}

//! Per-property checks.
use crate::absop::*;
use crate::engine::*;
use crate::interp::*;
use crate::model::*;
use proptest::strategy::BoxedStrategy;
use serde_json::{json, Value};
use std::collections::BTreeSet;

pub mod conc;
pub mod crash;
pub mod crashconc;
pub mod damage;
pub mod fault;
pub mod keys;
pub mod multi;
pub mod power;
pub mod reclaim;
pub mod seq;

pub type NonTrivial = fn(&BTreeSet<String>) -> bool;

pub fn cores() -> usize {
    std::thread::available_parallelism().map(|n| n.get()).unwrap_or(8).min(16)
}

pub fn opts_json(o: &RunOpts) -> Value {
    json!({
        "exclude": o.exclude,
        "peek_pairs": o.peek_pairs,
        "erase_nonconsuming": o.erase_nonconsuming,
        "count_probes": o.count_probes,
        "final_obs": o.final_obs,
        "force_fd": o.force_fd,
        "disk": o.disk,
        "marker_probes": o.marker_probes,
    })
}

pub fn opts_from_json(v: &Value) -> RunOpts {
    let mut o = RunOpts::default();
    if let Some(a) = v.get("exclude").and_then(|x| x.as_array()) {
        for s in a {
            if let Some(s) = s.as_str() {
                o.exclude.insert(s.to_string());
            }
        }
    }
    o.peek_pairs = v.get("peek_pairs").and_then(|x| x.as_bool()).unwrap_or(false);
    o.erase_nonconsuming = v.get("erase_nonconsuming").and_then(|x| x.as_bool()).unwrap_or(false);
    o.count_probes = v.get("count_probes").and_then(|x| x.as_bool()).unwrap_or(false);
    o.final_obs = v.get("final_obs").and_then(|x| x.as_bool()).unwrap_or(false);
    o.force_fd = v.get("force_fd").and_then(|x| x.as_bool());
    o.disk = v.get("disk").and_then(|x| x.as_bool()).unwrap_or(false);
    o.marker_probes = v.get("marker_probes").and_then(|x| x.as_bool()).unwrap_or(false);
    o
}

pub fn e1_body(prop: &str, case: Option<&Case>, cfg: &Cfg, out: &Outcome, opts: &RunOpts, enabled: &[Oracle]) -> Value {
    let n = out.trace.len();
    json!({
        "kind": "e1",
        "property": prop,
        "cfg": cfg,
        "steps": out.steps,
        "opts": opts_json(opts),
        "oracles": enabled,
        "abstract_case": case,
        "violation": out.violation,
        "trace_tail": out.trace[n.saturating_sub(40)..].to_vec(),
    })
}

pub fn e1_report(prop: &str, case: &Case, out: Outcome, opts: &RunOpts, enabled: &[Oracle], nontrivial: NonTrivial) -> CaseReport {
    let mut rep = CaseReport::default();
    rep.nontrivial = nontrivial(&out.features) && out.inconclusive.is_none();
    rep.features = out.features.clone();
    rep.excluded = out.excluded.clone();
    rep.inconclusive = out.inconclusive.clone();
    if let Some(v) = &out.violation {
        rep.violation = Some((format!("[{:?}] {}", v.oracle, v.msg), e1_body(prop, Some(case), &case.cfg, &out, opts, enabled)));
    }
    let n = out.trace.len();
    rep.sample = Some(json!({
        "cfg": case.cfg,
        "abstract_ops": case.ops.len(),
        "concrete_steps": out.n_steps,
        "first_steps": out.trace.iter().take(14).collect::<Vec<_>>(),
        "last_steps": out.trace[n.saturating_sub(4)..].to_vec(),
        "features": out.features,
    }));
    rep
}

#[allow(clippy::too_many_arguments)]
pub fn e1_search(
    ctx: &Ctx,
    name: &str,
    strategy: impl Fn() -> BoxedStrategy<Case> + Sync + Send + 'static,
    opts: RunOpts,
    enabled: Vec<Oracle>,
    nontrivial: NonTrivial,
    with_drain: bool,
    cases: usize,
    workers: usize,
) {
    let prop = ctx.prop.clone();
    let s = Search {
        name: name.to_string(),
        strategy: Box::new(strategy),
        run: Box::new(move |case: &Case| {
            let out = run_case(case, opts.clone(), &enabled, with_drain);
            e1_report(&prop, case, out, &opts, &enabled, nontrivial)
        }),
        cases,
        workers,
        max_shrink_iters: 400,
        shrink_secs: 240,
    };
    run_search(ctx, &s);
}

/// Replay an e1 replay file; returns the outcome.
pub fn replay_e1(body: &Value) -> Result<Outcome, String> {
    let cfg: Cfg = serde_json::from_value(body.get("cfg").cloned().ok_or("no cfg")?).map_err(|e| e.to_string())?;
    let steps: Vec<Step> = serde_json::from_value(body.get("steps").cloned().ok_or("no steps")?).map_err(|e| e.to_string())?;
    let enabled: Vec<Oracle> = serde_json::from_value(body.get("oracles").cloned().ok_or("no oracles")?).map_err(|e| e.to_string())?;
    let opts = opts_from_json(body.get("opts").unwrap_or(&Value::Null));
    Ok(replay_steps(&cfg, &steps, opts, &enabled))
}

/// Run committed regression replays (must pass) and the probes of open findings (print
/// KNOWN-FINDING while they still reproduce).
pub fn regress_and_probes(ctx: &Ctx) {
    for f in regress_files(&ctx.prop) {
        let Ok(s) = std::fs::read_to_string(&f) else { continue };
        let Ok(body) = serde_json::from_str::<Value>(&s) else { continue };
        let res = replay_any(&body);
        let mut rep = CaseReport::default();
        rep.features.insert("regression_replay".into());
        match res {
            Ok(Some(msg)) => {
                ctx.record(str_hash(&s), &rep);
                ctx.violations.lock().unwrap().push((format!("regression replay fails again: {}", msg), f.clone()));
                ctx.stop.store(true, std::sync::atomic::Ordering::SeqCst);
            }
            Ok(None) => ctx.record(str_hash(&s), &rep),
            Err(e) => {
                rep.inconclusive = Some(format!("replay {}: {}", f, e));
                ctx.record(str_hash(&s), &rep);
            }
        }
    }
    for fd in open_findings(&ctx.prop) {
        let Some(p) = &fd.probe else { continue };
        let path = format!("{}/{}", verif_root(), p);
        let Ok(s) = std::fs::read_to_string(&path) else {
            ctx.inconclusive.lock().unwrap().push(format!("probe file missing: {}", path));
            continue;
        };
        let Ok(body) = serde_json::from_str::<Value>(&s) else { continue };
        let repeats = body.get("repeat").and_then(|x| x.as_u64()).unwrap_or(1);
        let mut hit = 0;
        let mut runs = 0;
        for _ in 0..repeats {
            runs += 1;
            if let Ok(Some(_)) = replay_any(&body) {
                hit += 1;
                break;
            }
        }
        let mut rep = CaseReport::default();
        rep.features.insert("known_finding_probe".into());
        ctx.record(str_hash(&s), &rep);
        if hit > 0 {
            ctx.known_findings.lock().unwrap().push(format!("{} {} (probe {} reproduced after {} run(s))", fd.id, fd.what, p, runs));
        }
    }
}

/// Dispatch on the replay kind. Ok(Some(msg)) = violation reproduced.
pub fn replay_any(body: &Value) -> Result<Option<String>, String> {
    match body.get("kind").and_then(|k| k.as_str()) {
        Some("e1") => {
            let out = replay_e1(body)?;
            if let Some(i) = out.inconclusive {
                return Err(i);
            }
            Ok(out.violation.map(|v| format!("[{:?}] {}", v.oracle, v.msg)))
        }
        Some("c16") => seq::c16_replay(body),
        Some("c14") => keys::replay(body),
        Some("crash") => crash::replay(body),
        Some("crashconc") => crashconc::replay(body),
        Some("fault") => fault::replay(body),
        Some("conc") => conc::replay(body),
        Some("reclaim") => reclaim::replay(body),
        Some("multi") => multi::replay(body),
        Some("damage") => damage::replay(body),
        Some("power") => power::replay(body),
        Some("c02-erasure") => seq::c02_erasure_replay(body),
        Some(k) => Err(format!("unknown replay kind {}", k)),
        None => Err("replay without kind".into()),
    }
}

//! Reference model of one Walrus instance (semantic oracle, DESIGN §3.3) and the layout mirror
//! used only for aiming/classification (no verdict depends on the mirror).
use crate::payload;
use crate::proto::*;
use serde::{Deserialize, Serialize};
use std::collections::HashMap;

pub const BLOCK: u64 = 10 * 1024 * 1024;
pub const HDR: u64 = 256;
pub const MAX_BATCH: usize = 2000;

#[derive(Clone, Debug, Serialize, Deserialize, PartialEq, Eq, Hash, PartialOrd, Ord)]
pub enum Oracle {
    /// C01: content / order / exactly-once / no skip for consuming reads
    Content,
    /// C03: entry cap
    Cap,
    /// C03: byte budget
    Budget,
    /// C03: progress
    Progress,
    /// C15: counts
    Count,
    /// C02: peek == following consume
    Peek,
    /// C02: stateless reads made of real entries in order
    Stateless,
    /// C02: erasure differential
    Erasure,
    /// C04: failed op left a trace / rejected op did not return Err
    Reject,
    /// C06: restart visible
    Restart,
    /// C16: backends differ
    Backend,
    /// C17: markers
    Marker,
    /// any: the engine panicked / died / reopen failed
    Crash,
    /// any: read API returned Err on a healthy instance
    ReadErr,
}

#[derive(Clone, Debug, Serialize, Deserialize)]
pub struct Violation {
    pub oracle: Oracle,
    pub msg: String,
}

pub type Check = Result<(), Violation>;

pub fn viol<T>(oracle: Oracle, msg: String) -> Result<T, Violation> {
    Err(Violation { oracle, msg })
}

#[derive(Clone, Debug, PartialEq, Eq)]
pub struct EntId {
    pub seq: u64,
    pub len: u64,
    pub hash: u64,
}

#[derive(Clone, Debug, Default)]
pub struct TopicModel {
    pub appended: Vec<EntId>,
    /// candidate cursor positions (one element except after an AtLeastOnce restart)
    pub cursors: Vec<usize>,
    pub clean: bool,
    /// a failed append may or may not have marked the topic dirty (not specified): the next
    /// observation decides
    pub clean_unknown: bool,
    // ---- layout mirror (aiming / classification only) ----
    pub has_writer: bool,
    pub cur: u64,
    pub limit: u64,
    /// ordinal of the block each entry lives in
    pub entry_block: Vec<u32>,
    pub tail_ord: u32,
    pub rotations: u32,
    pub multi_unit_blocks: u32,
    /// an empty block was left behind (first entry did not fit / rejected first append)
    pub empty_blocks: u32,
}

impl TopicModel {
    pub fn new() -> Self {
        TopicModel { cursors: vec![0], clean: true, limit: BLOCK, ..Default::default() }
    }
    pub fn consumed_max(&self) -> usize {
        *self.cursors.iter().max().unwrap_or(&0)
    }
    pub fn consumed_min(&self) -> usize {
        *self.cursors.iter().min().unwrap_or(&0)
    }
    pub fn certain(&self) -> bool {
        self.cursors.len() == 1
    }
    pub fn avail_min(&self) -> usize {
        self.appended.len() - self.consumed_max()
    }
    pub fn next_len(&self, k: usize) -> Option<u64> {
        self.appended.get(self.consumed_max() + k).map(|e| e.len)
    }
    // ---- mirror ----
    pub fn mirror_append(&mut self, len: u64) {
        let need = HDR + len;
        if !self.has_writer {
            self.has_writer = true;
            self.cur = 0;
            self.limit = BLOCK;
            self.tail_ord += 1;
        }
        if self.cur + need > self.limit {
            if self.cur == 0 {
                self.empty_blocks += 1;
            }
            self.rotations += 1;
            self.tail_ord += 1;
            let units = (need + BLOCK - 1) / BLOCK;
            self.limit = units * BLOCK;
            if units > 1 {
                self.multi_unit_blocks += 1;
            }
            self.cur = 0;
        }
        self.cur += need;
        self.entry_block.push(self.tail_ord);
    }
    pub fn mirror_reopen(&mut self) {
        self.has_writer = false;
        self.cur = 0;
        self.limit = BLOCK;
    }
    /// cursor is inside a sealed block (per mirror)
    pub fn cursor_in_sealed(&self) -> bool {
        let c = self.consumed_max();
        match self.entry_block.get(c) {
            Some(b) => !self.has_writer || *b < self.tail_ord,
            None => false,
        }
    }
    pub fn tail_has_entries(&self) -> bool {
        self.has_writer && self.entry_block.last().map(|b| *b == self.tail_ord).unwrap_or(false)
    }
    /// room left in the active block for payload bytes (after the header)
    pub fn fit_len(&self, slack: i64) -> u64 {
        let (cur, limit) = if self.has_writer { (self.cur, self.limit) } else { (0, BLOCK) };
        let room = limit as i64 - cur as i64 - HDR as i64 - slack;
        room.clamp(0, (BLOCK - HDR) as i64 + 3) as u64
    }
}

pub fn ent_id(t: u32, seq: u64, len: u64, cache: &mut HashMap<(u32, u64, u64), u64>) -> EntId {
    let h = *cache.entry((t, seq, len)).or_insert_with(|| payload::hash(&payload::make(t, seq, len as usize)));
    EntId { seq, len, hash: h }
}

pub fn same(e: &Ent, id: &EntId) -> bool {
    e.len == id.len && e.hash == id.hash
}

#[derive(Clone, Debug)]
pub struct InstModel {
    pub mode: Mode,
    pub topics: Vec<TopicModel>,
    /// a restart happened in AtLeastOnce mode: counts are no longer checked
    pub alo_restarted: bool,
}

impl InstModel {
    pub fn new(mode: Mode, ntopics: usize) -> Self {
        InstModel { mode, topics: (0..ntopics).map(|_| TopicModel::new()).collect(), alo_restarted: false }
    }

    pub fn describe(&self, t: u32, e: &Ent) -> String {
        for (ti, tm) in self.topics.iter().enumerate() {
            for (i, id) in tm.appended.iter().enumerate() {
                if same(e, id) {
                    return format!("entry #{} of topic {}{} (len {})", i, ti, if ti as u32 == t { "" } else { " [FOREIGN]" }, e.len);
                }
            }
        }
        format!("unknown bytes (len {}, head {})", e.len, e.head)
    }

    /// returns true when the topic's marker changed (clean -> dirty)
    pub fn on_append_ok(&mut self, t: u32, id: EntId) -> bool {
        let tm = &mut self.topics[t as usize];
        tm.mirror_append(id.len);
        tm.appended.push(id);
        let changed = tm.clean || tm.clean_unknown;
        tm.clean = false;
        tm.clean_unknown = false;
        changed
    }

    /// consuming or peeking read_next
    pub fn check_read_next(&mut self, t: u32, ck: bool, r: &Resp) -> Check {
        let desc = |m: &InstModel, e: &Ent| m.describe(t, e);
        let tm = &self.topics[t as usize];
        match r {
            Resp::Some(e) => {
                let cands: Vec<usize> =
                    tm.cursors.iter().copied().filter(|c| tm.appended.get(*c).map(|id| same(e, id)).unwrap_or(false)).collect();
                if cands.is_empty() {
                    let exp = tm
                        .cursors
                        .iter()
                        .map(|c| match tm.appended.get(*c) {
                            Some(id) => format!("#{} (len {})", c, id.len),
                            None => format!("#{} (nothing: all {} consumed)", c, tm.appended.len()),
                        })
                        .collect::<Vec<_>>()
                        .join(" or ");
                    return viol(Oracle::Content, format!("read_next(topic {}, ck={}) returned {} but the model expects {}", t, ck, desc(self, e), exp));
                }
                let tm = &mut self.topics[t as usize];
                if ck {
                    tm.cursors = cands.into_iter().map(|c| c + 1).collect();
                } else if !tm.certain() {
                    tm.cursors = cands;
                }
                Ok(())
            }
            Resp::None => {
                let cands: Vec<usize> = tm.cursors.iter().copied().filter(|c| *c >= tm.appended.len()).collect();
                if cands.is_empty() {
                    return viol(
                        Oracle::Content,
                        format!(
                            "read_next(topic {}, ck={}) returned None but {} appended entries are unconsumed (cursor {:?} of {})",
                            t,
                            ck,
                            tm.appended.len() - tm.consumed_max(),
                            tm.cursors,
                            tm.appended.len()
                        ),
                    );
                }
                self.topics[t as usize].cursors = cands;
                Ok(())
            }
            Resp::Err { kind, msg } => viol(Oracle::ReadErr, format!("read_next(topic {}) returned Err({} {})", t, kind, msg)),
            other => viol(Oracle::Crash, format!("read_next(topic {}): {}", t, other.short())),
        }
    }

    /// stateful batch read (start_offset = None)
    pub fn check_batch_read(&mut self, t: u32, budget: u64, ck: bool, r: &Resp) -> Check {
        let tm = &self.topics[t as usize];
        match r {
            Resp::List(v) => {
                if v.len() > MAX_BATCH {
                    return viol(Oracle::Cap, format!("batch_read(topic {}, budget {}) returned {} entries (> {})", t, budget, v.len(), MAX_BATCH));
                }
                let total: u128 = v.iter().map(|e| e.len as u128).sum();
                if total > budget as u128 && v.len() != 1 {
                    return viol(
                        Oracle::Budget,
                        format!("batch_read(topic {}, budget {}) returned {} entries with {} payload bytes", t, budget, v.len(), total),
                    );
                }
                // content: some candidate cursor must explain the whole list
                let mut ok_cands = Vec::new();
                let mut first_bad: Option<(usize, usize)> = None;
                for c in tm.cursors.iter().copied() {
                    let mut good = true;
                    for (i, e) in v.iter().enumerate() {
                        match tm.appended.get(c + i) {
                            Some(id) if same(e, id) => {}
                            _ => {
                                good = false;
                                if first_bad.is_none() {
                                    first_bad = Some((c, i));
                                }
                                break;
                            }
                        }
                    }
                    if good {
                        ok_cands.push(c);
                    }
                }
                if v.is_empty() {
                    // progress: empty only when nothing is unconsumed
                    let done: Vec<usize> = tm.cursors.iter().copied().filter(|c| *c >= tm.appended.len()).collect();
                    if done.is_empty() {
                        return viol(
                            Oracle::Progress,
                            format!(
                                "batch_read(topic {}, budget {}, ck={}) returned no entries but {} appended entries are unconsumed (cursor {:?} of {}, next len {:?})",
                                t,
                                budget,
                                ck,
                                tm.appended.len() - tm.consumed_max(),
                                tm.cursors,
                                tm.appended.len(),
                                tm.next_len(0)
                            ),
                        );
                    }
                    self.topics[t as usize].cursors = done;
                    return Ok(());
                }
                if ok_cands.is_empty() {
                    let (c, i) = first_bad.unwrap();
                    let got = self.describe(t, &v[i]);
                    let exp = match tm.appended.get(c + i) {
                        Some(id) => format!("entry #{} (len {})", c + i, id.len),
                        None => format!("nothing (only {} entries appended)", tm.appended.len()),
                    };
                    let shape: Vec<String> = v.iter().take(12).map(|e| self.describe(t, e)).collect();
                    return viol(
                        Oracle::Content,
                        format!(
                            "batch_read(topic {}, budget {}, ck={}) element {} is {} but the model (cursor {}) expects {}; returned {} entries: {:?}",
                            t,
                            budget,
                            ck,
                            i,
                            got,
                            c,
                            exp,
                            v.len(),
                            shape
                        ),
                    );
                }
                let n = v.len();
                let tm = &mut self.topics[t as usize];
                if ck {
                    tm.cursors = ok_cands.into_iter().map(|c| c + n).collect();
                } else if !tm.certain() {
                    tm.cursors = ok_cands;
                }
                tm.cursors.sort();
                tm.cursors.dedup();
                Ok(())
            }
            Resp::Err { kind, msg } => viol(Oracle::ReadErr, format!("batch_read(topic {}, budget {}) returned Err({} {})", t, budget, kind, msg)),
            other => viol(Oracle::Crash, format!("batch_read(topic {}): {}", t, other.short())),
        }
    }

    /// offset-addressed read: returns only bytes of entries appended to that topic, in append order
    pub fn check_stateless(&self, t: u32, budget: u64, off: u64, r: &Resp) -> Check {
        let tm = &self.topics[t as usize];
        match r {
            Resp::List(v) => {
                if v.len() > MAX_BATCH {
                    return viol(Oracle::Cap, format!("stateless read(topic {}, off {}) returned {} entries", t, off, v.len()));
                }
                let mut next_idx = 0usize; // smallest entry index the next element may map to
                for (i, e) in v.iter().enumerate() {
                    // whole entry?
                    let mut found = None;
                    for (j, id) in tm.appended.iter().enumerate().skip(next_idx) {
                        if same(e, id) {
                            found = Some(j);
                            break;
                        }
                    }
                    if found.is_none() && i == 0 {
                        // suffix of an entry (trim inside the first entry)
                        for (j, id) in tm.appended.iter().enumerate() {
                            if id.len > e.len && e.len > 0 {
                                let from = id.len - e.len;
                                if payload::hash_suffix(t, id.seq, id.len, from) == e.hash {
                                    found = Some(j);
                                    break;
                                }
                            }
                        }
                    }
                    match found {
                        Some(j) => next_idx = j + 1,
                        None => {
                            return viol(
                                Oracle::Stateless,
                                format!(
                                    "stateless read(topic {}, budget {}, off {}) element {} is {}, not an (in-order) entry of the topic{}",
                                    t,
                                    budget,
                                    off,
                                    i,
                                    self.describe(t, e),
                                    if i == 0 { " nor a suffix of one" } else { "" }
                                ),
                            )
                        }
                    }
                }
                Ok(())
            }
            Resp::Err { kind, msg } => viol(Oracle::ReadErr, format!("stateless read(topic {}, off {}) returned Err({} {})", t, off, kind, msg)),
            other => viol(Oracle::Crash, format!("stateless read(topic {}): {}", t, other.short())),
        }
    }

    pub fn check_count(&self, t: u32, r: &Resp) -> Check {
        if self.alo_restarted {
            return Ok(());
        }
        let tm = &self.topics[t as usize];
        match r {
            Resp::Count(c) => {
                let ok = tm.cursors.iter().any(|cur| (tm.appended.len() - cur.min(&tm.appended.len())) as u64 == *c);
                if !ok {
                    return viol(
                        Oracle::Count,
                        format!(
                            "entry count of topic {} is {} but appended {} - consumed {:?} = {}",
                            t,
                            c,
                            tm.appended.len(),
                            tm.cursors,
                            tm.appended.len() - tm.consumed_max()
                        ),
                    );
                }
                Ok(())
            }
            other => viol(Oracle::Crash, format!("count(topic {}): {}", t, other.short())),
        }
    }
}

//! Deterministic payloads and an engine-independent content hash.
//!
//! A payload is a pure function of (topic id, sequence number, length); every byte is
//! position-addressable so suffixes (stateless reads trim inside an entry) can be verified too.

#[inline]
fn splitmix(mut z: u64) -> u64 {
    z = z.wrapping_add(0x9E37_79B9_7F4A_7C15);
    z = (z ^ (z >> 30)).wrapping_mul(0xBF58_476D_1CE4_E5B9);
    z = (z ^ (z >> 27)).wrapping_mul(0x94D0_49BB_1331_11EB);
    z ^ (z >> 31)
}

#[inline]
pub fn key(tid: u32, seq: u64, len: u64) -> u64 {
    splitmix(((tid as u64) << 48) ^ splitmix(seq) ^ splitmix(len.wrapping_mul(0xD6E8_FEB8_6659_FD93)))
}

#[inline]
fn word(k: u64, j: u64) -> u64 {
    // never all-zero first word: an all-zero 8-byte prefix has a meaning for the engine's
    // recovery probe only at the *header*, not in payloads, but keep payloads non-degenerate.
    splitmix(k ^ j.wrapping_mul(0xA24B_AED4_963E_E407)) | 1
}

/// Fill `out` with bytes [from, from+out.len()) of payload (tid, seq, len).
pub fn fill(tid: u32, seq: u64, len: u64, from: u64, out: &mut [u8]) {
    let k = key(tid, seq, len);
    let mut i = 0usize;
    let mut pos = from;
    // unaligned head
    while i < out.len() && pos % 8 != 0 {
        out[i] = (word(k, pos / 8) >> ((pos % 8) * 8)) as u8;
        i += 1;
        pos += 1;
    }
    while i + 8 <= out.len() {
        out[i..i + 8].copy_from_slice(&word(k, pos / 8).to_le_bytes());
        i += 8;
        pos += 8;
    }
    while i < out.len() {
        out[i] = (word(k, pos / 8) >> ((pos % 8) * 8)) as u8;
        i += 1;
        pos += 1;
    }
}

pub fn make(tid: u32, seq: u64, len: usize) -> Vec<u8> {
    let mut v = vec![0u8; len];
    fill(tid, seq, len as u64, 0, &mut v);
    v
}

/// 64-bit content hash, unrelated to the engine's FNV-1a checksum.
pub fn hash(data: &[u8]) -> u64 {
    let mut h: u64 = 0x243F_6A88_85A3_08D3 ^ (data.len() as u64).wrapping_mul(0x9E37_79B9_7F4A_7C15);
    let mut chunks = data.chunks_exact(8);
    for c in &mut chunks {
        let w = u64::from_le_bytes(c.try_into().unwrap());
        h = (h ^ w).wrapping_mul(0x0000_0100_0000_01B3 | 0x9E37_0000_0000_0000);
        h ^= h >> 29;
    }
    let rem = chunks.remainder();
    if !rem.is_empty() {
        let mut b = [0u8; 8];
        b[..rem.len()].copy_from_slice(rem);
        let w = u64::from_le_bytes(b);
        h = (h ^ w).wrapping_mul(0xFF51_AFD7_ED55_8CCD);
        h ^= h >> 32;
    }
    splitmix(h)
}

/// Hash of the suffix [from, len) of payload (tid, seq, len) without materialising the prefix.
pub fn hash_suffix(tid: u32, seq: u64, len: u64, from: u64) -> u64 {
    let mut v = vec![0u8; (len - from) as usize];
    fill(tid, seq, len, from, &mut v);
    hash(&v)
}

#[cfg(test)]
mod tests {
    use super::*;
    #[test]
    fn fill_is_position_addressable() {
        let full = make(3, 77, 1000);
        for from in [0usize, 1, 7, 8, 9, 255, 999, 1000] {
            let mut part = vec![0u8; 1000 - from];
            fill(3, 77, 1000, from as u64, &mut part);
            assert_eq!(&full[from..], &part[..]);
        }
    }
}

//! Abstract operations (what proptest generates and shrinks) for the sequential engine E1.
use crate::proto::{Fsync, Mode};
use proptest::prelude::*;
use serde::{Deserialize, Serialize};

pub const MIB: u64 = 1024 * 1024;

#[derive(Clone, Debug, Serialize, Deserialize, PartialEq, Eq, Hash)]
pub enum Size {
    Empty,
    /// index into TINY_SPECIALS ∪ 0..300
    Tiny(u16),
    Small(u32),
    Medium(u32),
    Large(u32),
    /// entry ends exactly `slack` bytes before (slack>0) / after (slack<0) the block limit
    Fit(i8),
    Multi(u32),
}

pub const TINY_SPECIALS: [u64; 9] = [0, 1, 2, 127, 128, 129, 255, 256, 257];

#[derive(Clone, Debug, Serialize, Deserialize, PartialEq, Eq, Hash)]
pub enum Budget {
    Zero,
    One,
    /// len(next entry) + d
    NextLen(i8),
    /// sum of the next k entry lengths + d
    SumNext(u8, i8),
    Bytes(u32),
    Max,
}

#[derive(Clone, Debug, Serialize, Deserialize, PartialEq, Eq, Hash)]
pub enum Off {
    Zero,
    /// raw-byte offset of the k-th entry boundary of the topic (k scaled into range)
    Boundary(u16),
    /// inside the payload of entry k, delta bytes in
    InPayload(u16, u16),
    /// inside the header of entry k
    InHeader(u16, u8),
    End,
    Beyond(u32),
    Any(u64),
}

#[derive(Clone, Debug, Serialize, Deserialize, PartialEq, Eq, Hash)]
pub enum Reject {
    /// 2001 entries
    TooManyEntries,
    /// > 10 GiB via aliased slices
    TooManyBytes,
    /// one entry > 1 GiB (single append)
    OversizeAppend,
    /// one entry > 1 GiB inside a batch
    OversizeInBatch,
    /// empty batch (documented: Ok, appends nothing)
    EmptyBatch,
}

#[derive(Clone, Debug, Serialize, Deserialize, PartialEq, Eq, Hash)]
pub enum AbsOp {
    Append { t: u16, size: Size },
    Batch { t: u16, sizes: Vec<Size> },
    /// n tiny entries of one size (n up to 2000)
    BatchMany { t: u16, n: u16, len: u16 },
    ReadNext { t: u16, ck: bool },
    BatchRead { t: u16, budget: Budget, ck: bool },
    Stateless { t: u16, budget: Budget, ck: bool, off: Off },
    Count { t: u16 },
    CountAll,
    Reopen { fresh: bool },
    /// rename the WAL files of earlier lifetimes into the future, then reopen (fresh process)
    ClockRegress,
    Reject { t: u16, kind: Reject },
    MarkClean { t: u16 },
    MarkDirty { t: u16 },
    IsClean { t: u16 },
    Sleep { ms: u16 },
    /// n appends of 5.3 MiB: every one after the first seals a block, so n blocks are allocated
    /// (used to reach the 100-blocks-per-file roll-over)
    Fill { t: u16, n: u8 },
    /// allocate n blocks through n auxiliary one-entry topics (cheap)
    Touch { n: u8 },
    /// begin / end a transient outage of the marker file: while it lasts the marker store's
    /// temporary file cannot be created (a directory occupies its name); it always ends before
    /// the instance is shut down
    MarkerOutage { on: bool },
}

#[derive(Clone, Debug, Serialize, Deserialize, PartialEq, Eq, Hash)]
pub struct Cfg {
    pub mode: Mode,
    pub fsync: Fsync,
    pub fd: bool,
    /// indices into TOPIC_POOL
    pub topics: Vec<u8>,
}

pub fn topic_pool() -> Vec<String> {
    vec![
        "a".to_string(),
        "t_x_s_1".to_string(),
        "Z".to_string(),
        "orders.eu-west-1/partition=07".to_string(),
        "x".repeat(60),
        "tópico-ñ-日本語".to_string(),
        "q".repeat(150),
        "with space and\ttab".to_string(),
        // ---- beyond this point: names that do not fit the 256-byte entry header (C04 only)
        "L".repeat(230),
        "é".repeat(120),
    ]
}

#[derive(Clone, Debug, Serialize, Deserialize, PartialEq, Eq, Hash)]
pub struct Case {
    pub cfg: Cfg,
    pub ops: Vec<AbsOp>,
    /// choices for the final drain (cycled)
    pub drain: Vec<DrainStep>,
}

#[derive(Clone, Debug, Serialize, Deserialize, PartialEq, Eq, Hash)]
pub enum DrainStep {
    Next,
    Batch(Budget),
}

// ------------------------------------------------------------------------------------------
// strategies

/// map a u16 index monotonically into 0..n (shrinks towards 0)
pub fn idx(i: u16, n: usize) -> usize {
    ((i as usize) * n) >> 16
}

#[derive(Clone, Copy, Debug, PartialEq, Eq)]
pub enum SizeProfile {
    Tiny,
    Block,
    Multi,
}

pub fn size_strategy(p: SizeProfile) -> BoxedStrategy<Size> {
    let tiny = any::<u16>().prop_map(Size::Tiny);
    let small = (0u32..65_536).prop_map(Size::Small);
    let medium = (0u32..(1 << 20)).prop_map(Size::Medium);
    let large = prop_oneof![3 => (1u32 << 20)..(4u32 << 20), 1 => (4u32 << 20)..(9u32 << 20)].prop_map(Size::Large);
    let fit = (-3i8..=3).prop_map(Size::Fit);
    let multi = prop_oneof![3 => (10u32 << 20)..(12u32 << 20), 1 => (12u32 << 20)..(25u32 << 20)].prop_map(Size::Multi);
    match p {
        SizeProfile::Tiny => prop_oneof![
            2 => Just(Size::Empty),
            10 => tiny,
            3 => small,
        ]
        .boxed(),
        SizeProfile::Block => prop_oneof![
            1 => Just(Size::Empty),
            4 => tiny,
            2 => small,
            2 => medium,
            6 => large,
            4 => fit,
        ]
        .boxed(),
        SizeProfile::Multi => prop_oneof![
            1 => Just(Size::Empty),
            4 => tiny,
            2 => medium,
            4 => large,
            2 => fit,
            3 => multi,
        ]
        .boxed(),
    }
}

pub fn budget_strategy() -> BoxedStrategy<Budget> {
    prop_oneof![
        1 => Just(Budget::Zero),
        1 => Just(Budget::One),
        4 => (-1i8..=1).prop_map(Budget::NextLen),
        4 => (1u8..6, -1i8..=1).prop_map(|(k, d)| Budget::SumNext(k, d)),
        3 => (0u32..(12u32 << 20)).prop_map(Budget::Bytes),
        2 => (0u32..2000).prop_map(Budget::Bytes),
        3 => Just(Budget::Max),
    ]
    .boxed()
}

pub fn off_strategy() -> BoxedStrategy<Off> {
    prop_oneof![
        2 => Just(Off::Zero),
        5 => any::<u16>().prop_map(Off::Boundary),
        3 => (any::<u16>(), any::<u16>()).prop_map(|(k, d)| Off::InPayload(k, d)),
        2 => (any::<u16>(), any::<u8>()).prop_map(|(k, d)| Off::InHeader(k, d)),
        1 => Just(Off::End),
        1 => (1u32..100_000).prop_map(Off::Beyond),
        1 => any::<u64>().prop_map(Off::Any),
    ]
    .boxed()
}

pub fn mode_strategy() -> BoxedStrategy<Mode> {
    prop_oneof![
        3 => Just(Mode::Strict),
        2 => (1u32..=8).prop_map(Mode::Alo),
    ]
    .boxed()
}

pub fn fsync_strategy() -> BoxedStrategy<Fsync> {
    prop_oneof![
        3 => Just(Fsync::None),
        2 => Just(Fsync::Ms(1)),
        1 => Just(Fsync::Each),
    ]
    .boxed()
}

/// number of pool entries that are valid topic names
pub const VALID_TOPICS: u8 = 8;

pub fn topics_strategy(max: usize) -> BoxedStrategy<Vec<u8>> {
    proptest::sample::subsequence((0..VALID_TOPICS).collect::<Vec<u8>>(), 1..=max).prop_shuffle().boxed()
}

/// like `topics_strategy`, but half of the cases also get one topic whose name is too long
pub fn topics_strategy_with_long(max: usize) -> BoxedStrategy<Vec<u8>> {
    let n = topic_pool().len() as u8;
    (topics_strategy(max), proptest::option::weighted(0.5, VALID_TOPICS..n), any::<u16>())
        .prop_map(|(mut v, long, pos)| {
            if let Some(l) = long {
                let at = idx(pos, v.len() + 1);
                v.insert(at, l);
            }
            v
        })
        .boxed()
}

pub fn cfg_strategy(max_topics: usize, mode: BoxedStrategy<Mode>) -> BoxedStrategy<Cfg> {
    (mode, fsync_strategy(), any::<bool>(), topics_strategy(max_topics))
        .prop_map(|(mode, fsync, fd, topics)| Cfg { mode, fsync, fd, topics })
        .boxed()
}

pub fn drain_strategy() -> BoxedStrategy<Vec<DrainStep>> {
    proptest::collection::vec(
        prop_oneof![
            2 => Just(DrainStep::Next),
            3 => budget_strategy().prop_map(DrainStep::Batch),
        ],
        1..8,
    )
    .boxed()
}

/// Weights of the operation mix; 0 disables an operation class.
#[derive(Clone, Debug)]
pub struct Mix {
    pub append: u32,
    pub batch: u32,
    pub batch_many: u32,
    pub read_next: u32,
    pub batch_read: u32,
    pub peek: u32,
    pub stateless: u32,
    pub count: u32,
    pub reopen: u32,
    pub clock: u32,
    pub reject: u32,
    pub marks: u32,
    pub max_batch: usize,
}

impl Mix {
    pub fn consuming() -> Mix {
        Mix {
            append: 30,
            batch: 12,
            batch_many: 1,
            read_next: 18,
            batch_read: 22,
            peek: 0,
            stateless: 0,
            count: 0,
            reopen: 0,
            clock: 0,
            reject: 0,
            marks: 0,
            max_batch: 40,
        }
    }
}

pub fn op_strategy(mix: &Mix, p: SizeProfile) -> BoxedStrategy<AbsOp> {
    let t = any::<u16>();
    let mut v: Vec<(u32, BoxedStrategy<AbsOp>)> = Vec::new();
    let maxb = match p {
        SizeProfile::Tiny => mix.max_batch,
        _ => mix.max_batch.min(3),
    };
    if mix.append > 0 {
        v.push((mix.append, (t.clone(), size_strategy(p)).prop_map(|(t, size)| AbsOp::Append { t, size }).boxed()));
    }
    if mix.batch > 0 {
        v.push((
            mix.batch,
            (t.clone(), proptest::collection::vec(size_strategy(p), 1..=maxb)).prop_map(|(t, sizes)| AbsOp::Batch { t, sizes }).boxed(),
        ));
    }
    if mix.batch_many > 0 {
        v.push((
            mix.batch_many,
            (t.clone(), prop_oneof![1 => 1990u16..=2000, 1 => 100u16..1990], 0u16..300).prop_map(|(t, n, len)| AbsOp::BatchMany { t, n, len }).boxed(),
        ));
    }
    if mix.read_next > 0 {
        v.push((mix.read_next, t.clone().prop_map(|t| AbsOp::ReadNext { t, ck: true }).boxed()));
    }
    if mix.batch_read > 0 {
        v.push((mix.batch_read, (t.clone(), budget_strategy()).prop_map(|(t, budget)| AbsOp::BatchRead { t, budget, ck: true }).boxed()));
    }
    if mix.peek > 0 {
        v.push((
            mix.peek,
            prop_oneof![
                t.clone().prop_map(|t| AbsOp::ReadNext { t, ck: false }),
                (t.clone(), budget_strategy()).prop_map(|(t, budget)| AbsOp::BatchRead { t, budget, ck: false }),
            ]
            .boxed(),
        ));
    }
    if mix.stateless > 0 {
        v.push((
            mix.stateless,
            (t.clone(), budget_strategy(), any::<bool>(), off_strategy())
                .prop_map(|(t, budget, ck, off)| AbsOp::Stateless { t, budget, ck, off })
                .boxed(),
        ));
    }
    if mix.count > 0 {
        v.push((mix.count, prop_oneof![4 => t.clone().prop_map(|t| AbsOp::Count { t }), 1 => Just(AbsOp::CountAll)].boxed()));
    }
    if mix.reopen > 0 {
        v.push((mix.reopen, any::<bool>().prop_map(|fresh| AbsOp::Reopen { fresh }).boxed()));
    }
    if mix.clock > 0 {
        v.push((mix.clock, Just(AbsOp::ClockRegress).boxed()));
    }
    if mix.reject > 0 {
        v.push((
            mix.reject,
            (
                t.clone(),
                prop_oneof![
                    Just(Reject::TooManyEntries),
                    Just(Reject::TooManyBytes),
                    Just(Reject::OversizeAppend),
                    Just(Reject::OversizeInBatch),
                    Just(Reject::EmptyBatch),
                ],
            )
                .prop_map(|(t, kind)| AbsOp::Reject { t, kind })
                .boxed(),
        ));
    }
    if mix.marks > 0 {
        v.push((
            mix.marks,
            prop_oneof![
                t.clone().prop_map(|t| AbsOp::MarkClean { t }),
                t.clone().prop_map(|t| AbsOp::MarkDirty { t }),
                t.clone().prop_map(|t| AbsOp::IsClean { t }),
                prop_oneof![Just(1u16), Just(5), Just(20), Just(250)].prop_map(|ms| AbsOp::Sleep { ms }),
            ]
            .boxed(),
        ));
    }
    proptest::strategy::Union::new_weighted(v).boxed()
}

pub fn case_strategy(
    mix: Mix,
    p: SizeProfile,
    nops: std::ops::Range<usize>,
    max_topics: usize,
    mode: BoxedStrategy<Mode>,
) -> BoxedStrategy<Case> {
    (cfg_strategy(max_topics, mode), proptest::collection::vec(op_strategy(&mix, p), nops), drain_strategy())
        .prop_map(|(cfg, ops, drain)| Case { cfg, ops, drain })
        .boxed()
}

pub fn case_strategy_topics(
    mix: Mix,
    p: SizeProfile,
    nops: std::ops::Range<usize>,
    max_topics: usize,
    mode: BoxedStrategy<Mode>,
    with_long: bool,
) -> BoxedStrategy<Case> {
    let topics = if with_long { topics_strategy_with_long(max_topics) } else { topics_strategy(max_topics) };
    ((mode, fsync_strategy(), any::<bool>(), topics).prop_map(|(mode, fsync, fd, topics)| Cfg { mode, fsync, fd, topics }), proptest::collection::vec(op_strategy(&mix, p), nops), drain_strategy())
        .prop_map(|(cfg, ops, drain)| Case { cfg, ops, drain })
        .boxed()
}

/// A history that starts by allocating 96..=98 blocks (cheaply, through auxiliary topics) and
/// continues with a batch of 3-5 entries that each need a block of their own, so that the WAL
/// file roll-over (block 101 goes to a new file) happens in the middle of that batch's planning
/// or in one of the generated operations after it.
pub fn fileroll_case_strategy(mix: Mix, nops: std::ops::Range<usize>, max_topics: usize, mode: BoxedStrategy<Mode>) -> BoxedStrategy<Case> {
    (
        cfg_strategy(max_topics, mode),
        (any::<u16>(), 96u8..=98),
        proptest::collection::vec(((5u32 << 20) + 300_000..(9u32 << 20)).prop_map(Size::Large), 3..=5),
        any::<bool>(),
        proptest::collection::vec(op_strategy(&mix, SizeProfile::Block), nops),
        drain_strategy(),
    )
        .prop_map(|(cfg, (t, n), sizes, single_first, mut ops, drain)| {
            ops.insert(0, AbsOp::Batch { t, sizes });
            if single_first {
                ops.insert(0, AbsOp::Append { t, size: Size::Tiny(40_000) });
            }
            ops.insert(0, AbsOp::Touch { n });
            Case { cfg, ops, drain }
        })
        .boxed()
}

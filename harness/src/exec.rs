//! Child executor: the only code that touches the engine. One process lifetime of a case.
//!
//! Reads `Init` then `Op`s as JSON lines from stdin and answers each with one line
//! `@@ <json Resp>` on stdout. A panic anywhere in the process (any thread) is reported as
//! `@@ {"Panic":..}` and the process exits with status 101 – it is never swallowed.
use crate::payload;
use crate::proto::*;
use std::io::{BufRead, Write};
use std::path::{Path, PathBuf};
use walrus_rust::{FsyncSchedule, ReadConsistency, Walrus};

fn emit(r: &Resp) {
    let s = serde_json::to_string(r).unwrap();
    let out = std::io::stdout();
    let mut l = out.lock();
    let _ = writeln!(l, "@@ {}", s);
    let _ = l.flush();
}

struct Ack {
    fd: Option<std::fs::File>,
}
impl Ack {
    fn line(&mut self, tag: &str, body: &str) {
        if let Some(f) = self.fd.as_mut() {
            // one write(2) per line: a killed process cannot lose a completed write
            let s = format!("{} {}\n", tag, body);
            let _ = f.write_all(s.as_bytes());
        }
    }
}

fn ent(data: &[u8]) -> Ent {
    let n = data.len().min(8);
    let mut head = String::with_capacity(16);
    for b in &data[..n] {
        head.push_str(&format!("{:02x}", b));
    }
    Ent { len: data.len() as u64, hash: payload::hash(data), head }
}

fn err(e: std::io::Error) -> Resp {
    Resp::Err { kind: format!("{:?}", e.kind()), msg: e.to_string() }
}

fn mode_of(m: &Mode) -> ReadConsistency {
    match m {
        Mode::Strict => ReadConsistency::StrictlyAtOnce,
        Mode::Alo(n) => ReadConsistency::AtLeastOnce { persist_every: *n },
    }
}
fn fsync_of(f: &Fsync) -> FsyncSchedule {
    match f {
        Fsync::None => FsyncSchedule::NoFsync,
        Fsync::Ms(n) => FsyncSchedule::Milliseconds(*n),
        Fsync::Each => FsyncSchedule::SyncEach,
    }
}

fn ls_rec(base: &Path, rel: &Path, out: &mut Vec<(String, u64, bool)>) {
    let Ok(rd) = std::fs::read_dir(base.join(rel)) else { return };
    let mut names: Vec<_> = rd.filter_map(|e| e.ok()).collect();
    names.sort_by_key(|e| e.file_name());
    for e in names {
        let p = rel.join(e.file_name());
        let md = match std::fs::symlink_metadata(base.join(&p)) {
            Ok(m) => m,
            Err(_) => continue,
        };
        let name = p.to_string_lossy().into_owned();
        if md.is_dir() {
            out.push((name, 0, true));
            ls_rec(base, &p, out);
        } else {
            out.push((name, md.len(), false));
        }
    }
}

pub struct Exec {
    aux_ctr: u64,
    base: PathBuf,
    topics: Vec<String>,
    insts: Vec<Option<std::sync::Arc<Walrus>>>,
    zero: Vec<u8>,
}

impl Exec {
    fn topic(&self, t: u32) -> &str {
        &self.topics[t as usize]
    }
    fn inst(&self, i: u8) -> Option<std::sync::Arc<Walrus>> {
        self.insts.get(i as usize).and_then(|x| x.clone())
    }
    fn zero_buf(&mut self, len: usize) -> &[u8] {
        if self.zero.len() < len {
            // calloc-backed: untouched pages stay virtual
            self.zero = vec![0u8; len];
        }
        &self.zero[..len]
    }

    fn open(&mut self, inst: u8, dir: &str, key: &Option<String>, mode: &Mode, fsync: &Fsync, ctor: &Ctor) -> Resp {
        let d = self.base.join(dir);
        let m = mode_of(mode);
        let f = fsync_of(fsync);
        // env-based constructors: this child is single threaded at this point
        let r = match ctor {
            Ctor::Builder => {
                let mut b = Walrus::builder().data_dir(d).consistency(m).fsync_schedule(f);
                if let Some(k) = key {
                    b = b.key(k);
                }
                b.build()
            }
            Ctor::BuilderEnvDir => {
                std::env::set_var("WALRUS_DATA_DIR", &d);
                let mut b = Walrus::builder().consistency(m).fsync_schedule(f);
                if let Some(k) = key {
                    b = b.key(k);
                }
                b.build()
            }
            Ctor::NewForKey => {
                std::env::set_var("WALRUS_DATA_DIR", &d);
                Walrus::new_for_key(key.as_deref().unwrap_or(""))
            }
            Ctor::WithConsistencyForKey => {
                std::env::set_var("WALRUS_DATA_DIR", &d);
                Walrus::with_consistency_for_key(key.as_deref().unwrap_or(""), m)
            }
            Ctor::WithConsistencyAndScheduleForKey => {
                std::env::set_var("WALRUS_DATA_DIR", &d);
                Walrus::with_consistency_and_schedule_for_key(key.as_deref().unwrap_or(""), m, f)
            }
            Ctor::NewEnvKey => {
                std::env::set_var("WALRUS_DATA_DIR", &d);
                match key {
                    Some(k) => std::env::set_var("WALRUS_INSTANCE_KEY", k),
                    None => std::env::remove_var("WALRUS_INSTANCE_KEY"),
                }
                Walrus::new()
            }
        };
        match r {
            Ok(w) => {
                let i = inst as usize;
                if self.insts.len() <= i {
                    self.insts.resize(i + 1, None);
                }
                self.insts[i] = Some(std::sync::Arc::new(w));
                Resp::Ok
            }
            Err(e) => err(e),
        }
    }

    pub fn run_op(&mut self, op: &Op) -> Resp {
        match op {
            Op::Open { inst, dir, key, mode, fsync, ctor } => self.open(*inst, dir, key, mode, fsync, ctor),
            Op::Close { inst } => {
                if let Some(slot) = self.insts.get_mut(*inst as usize) {
                    *slot = None;
                }
                Resp::Ok
            }
            Op::Sleep { ms } => {
                std::thread::sleep(std::time::Duration::from_millis(*ms));
                Resp::Ok
            }
            Op::Ls => {
                let mut v = Vec::new();
                ls_rec(&self.base, Path::new(""), &mut v);
                Resp::Ls(v)
            }
            Op::FileStates => file_states(),
            Op::Plan { plan } => set_plan(plan),
            Op::IoCount => io_count(),
            Op::Exit | Op::ExitNow => Resp::Ok,
            Op::Conc { inst, threads, schedule } => {
                let Some(w) = self.inst(*inst) else { return Resp::Unsupported("no instance".into()) };
                crate::conc::run(w, &self.topics, threads, schedule)
            }
            Op::BatchAlias { inst, t, n, len } => {
                let Some(w) = self.inst(*inst) else { return Resp::Unsupported("no instance".into()) };
                let topic = self.topic(*t).to_string();
                let buf = self.zero_buf(*len as usize);
                let refs: Vec<&[u8]> = (0..*n).map(|_| buf).collect();
                match w.batch_append_for_topic(&topic, &refs) {
                    Ok(()) => Resp::Ok,
                    Err(e) => err(e),
                }
            }
            Op::Touch { inst, n } => {
                let Some(w) = self.inst(*inst) else { return Resp::Unsupported("no instance".into()) };
                for _ in 0..*n {
                    let name = format!("__aux_{}", self.aux_ctr);
                    self.aux_ctr += 1;
                    if let Err(e) = w.append_for_topic(&name, b"x") {
                        return err(e);
                    }
                }
                Resp::Ok
            }
            Op::AppendZero { inst, t, len } => {
                let Some(w) = self.inst(*inst) else { return Resp::Unsupported("no instance".into()) };
                let topic = self.topic(*t).to_string();
                let buf = self.zero_buf(*len as usize);
                match w.append_for_topic(&topic, buf) {
                    Ok(()) => Resp::Ok,
                    Err(e) => err(e),
                }
            }
            other => {
                let inst = match other {
                    Op::Append { inst, .. }
                    | Op::Batch { inst, .. }
                    | Op::ReadNext { inst, .. }
                    | Op::BatchRead { inst, .. }
                    | Op::Count { inst, .. }
                    | Op::CountAll { inst }
                    | Op::MarkClean { inst, .. }
                    | Op::MarkDirty { inst, .. }
                    | Op::IsClean { inst, .. } => *inst,
                    _ => unreachable!(),
                };
                let Some(w) = self.inst(inst) else { return Resp::Unsupported("no instance".into()) };
                run_data_op(&w, &self.topics, other)
            }
        }
    }
}

/// Data-plane operations; shared with the concurrent engine (E3).
pub fn run_data_op(w: &Walrus, topics: &[String], op: &Op) -> Resp {
    match op {
        Op::Append { t, seq, len, .. } => {
            let p = payload::make(*t, *seq, *len as usize);
            let h = payload::hash(&p);
            match w.append_for_topic(&topics[*t as usize], &p) {
                Ok(()) => Resp::Hashes(vec![h]),
                Err(e) => err(e),
            }
        }
        Op::Batch { t, seq0, lens, .. } => {
            let ps: Vec<Vec<u8>> =
                lens.iter().enumerate().map(|(i, l)| payload::make(*t, seq0 + i as u64, *l as usize)).collect();
            let refs: Vec<&[u8]> = ps.iter().map(|p| p.as_slice()).collect();
            let hs: Vec<u64> = ps.iter().map(|p| payload::hash(p)).collect();
            match w.batch_append_for_topic(&topics[*t as usize], &refs) {
                Ok(()) => Resp::Hashes(hs),
                Err(e) => err(e),
            }
        }
        Op::ReadNext { t, ck, .. } => match w.read_next(&topics[*t as usize], *ck) {
            Ok(Some(e)) => Resp::Some(ent(&e.data)),
            Ok(None) => Resp::None,
            Err(e) => err(e),
        },
        Op::BatchRead { t, budget, ck, off, .. } => {
            let b = if *budget >= usize::MAX as u64 { usize::MAX } else { *budget as usize };
            match w.batch_read_for_topic(&topics[*t as usize], b, *ck, *off) {
                Ok(v) => Resp::List(v.iter().map(|e| ent(&e.data)).collect()),
                Err(e) => err(e),
            }
        }
        Op::Count { t, .. } => Resp::Count(walrus_rust::topic_entry_count(w, &topics[*t as usize])),
        Op::CountAll { .. } => {
            let mut v: Vec<(String, u64)> = walrus_rust::topic_entry_counts(w).into_iter().collect();
            v.sort();
            Resp::Counts(v)
        }
        Op::MarkClean { t, .. } => {
            w.mark_topic_clean(&topics[*t as usize]);
            Resp::Ok
        }
        Op::MarkDirty { t, .. } => {
            w.mark_topic_dirty(&topics[*t as usize]);
            Resp::Ok
        }
        Op::IsClean { t, .. } => Resp::Bool(w.topic_is_clean(&topics[*t as usize])),
        _ => Resp::Unsupported(format!("{:?}", op)),
    }
}

#[cfg(walrus_verif)]
fn file_states() -> Resp {
    let mut v: Vec<FileState> = walrus_rust::wal::verif::file_states()
        .into_iter()
        .map(|(path, locked, checkpointed, total, fully)| FileState { path, locked, checkpointed, total, fully })
        .collect();
    v.sort_by(|a, b| a.path.cmp(&b.path));
    Resp::FileStates(v)
}
#[cfg(not(walrus_verif))]
fn file_states() -> Resp {
    Resp::Unsupported("built without --cfg walrus_verif".into())
}
#[cfg(walrus_verif)]
fn set_plan(p: &str) -> Resp {
    match walrus_rust::wal::verif::set_plan(p) {
        Ok(()) => Resp::Ok,
        Err(e) => Resp::Unsupported(e),
    }
}
#[cfg(not(walrus_verif))]
fn set_plan(_p: &str) -> Resp {
    Resp::Unsupported("built without --cfg walrus_verif".into())
}
#[cfg(walrus_verif)]
fn io_count() -> Resp {
    Resp::Num(walrus_rust::wal::verif::io_count())
}
#[cfg(not(walrus_verif))]
fn io_count() -> Resp {
    Resp::Unsupported("built without --cfg walrus_verif".into())
}

pub fn main_exec() -> i32 {
    std::env::set_var("WALRUS_QUIET", "1");
    std::panic::set_hook(Box::new(|info| {
        let msg = format!("{}", info);
        if std::env::var("WVERIF_BT").is_ok() {
            eprintln!("{}", std::backtrace::Backtrace::force_capture());
        }
        emit(&Resp::Panic(msg));
        unsafe { libc::_exit(101) }
    }));
    let stdin = std::io::stdin();
    let mut lines = stdin.lock().lines();
    let init: Init = match lines.next() {
        Some(Ok(l)) => serde_json::from_str(&l).expect("bad init"),
        _ => return 2,
    };
    if init.fd_backend {
        walrus_rust::enable_fd_backend();
    } else {
        walrus_rust::disable_fd_backend();
    }
    let mut ack = Ack {
        fd: init.ack_log.as_ref().map(|p| std::fs::OpenOptions::new().create(true).append(true).open(p).expect("ack log")),
    };
    let mut ex = Exec { aux_ctr: 0, base: PathBuf::from(&init.base), topics: init.topics.clone(), insts: Vec::new(), zero: Vec::new() };
    emit(&Resp::Ok);
    for line in lines {
        let Ok(line) = line else { break };
        if line.trim().is_empty() {
            continue;
        }
        let op: Op = match serde_json::from_str(&line) {
            Ok(o) => o,
            Err(e) => {
                emit(&Resp::Unsupported(format!("bad op: {}", e)));
                continue;
            }
        };
        ack.line("start", &line);
        let r = ex.run_op(&op);
        let rs = serde_json::to_string(&r).unwrap();
        ack.line("ack", &rs);
        emit(&r);
        match op {
            Op::Exit => return 0,
            Op::ExitNow => unsafe { libc::_exit(0) },
            _ => {}
        }
    }
    0
}

mod absop;
mod child;
mod conc;
mod engine;
mod exec;
mod interp;
mod model;
mod payload;
mod props;
mod proto;

use engine::*;

fn usage() -> ! {
    eprintln!("usage: wverif exec | run <Cxx> [--tier quick|thorough] | replay <file>");
    std::process::exit(2)
}

fn main() {
    let args: Vec<String> = std::env::args().collect();
    if args.len() < 2 {
        usage();
    }
    match args[1].as_str() {
        "exec" => std::process::exit(exec::main_exec()),
        "run" => {
            if args.len() < 3 {
                usage();
            }
            let prop = args[2].clone();
            let mut tier = match std::env::var("VERIF_TIER").ok().as_deref() {
                Some("thorough") => Tier::Thorough,
                _ => Tier::Quick,
            };
            let mut i = 3;
            while i < args.len() {
                if args[i] == "--tier" && i + 1 < args.len() {
                    tier = if args[i + 1] == "thorough" { Tier::Thorough } else { Tier::Quick };
                    i += 1;
                }
                i += 1;
            }
            let seed: u64 = std::env::var("VERIF_SEED").ok().and_then(|s| s.parse().ok()).unwrap_or(0);
            std::process::exit(run_prop(&prop, tier, seed));
        }
        "replay" => {
            if args.len() < 3 {
                usage();
            }
            let s = std::fs::read_to_string(&args[2]).expect("read replay file");
            let body: serde_json::Value = serde_json::from_str(&s).expect("parse replay file");
            let prop = body.get("property").and_then(|p| p.as_str()).unwrap_or("?").to_string();
            match props::replay_any(&body) {
                Ok(Some(msg)) => {
                    println!("VIOLATION property={} replay={}", prop, args[2]);
                    println!("  {}", msg);
                    std::process::exit(1)
                }
                Ok(None) => {
                    println!("OK property={} replay passes", prop);
                    std::process::exit(0)
                }
                Err(e) => {
                    println!("INCONCLUSIVE property={} {}", prop, e);
                    std::process::exit(2)
                }
            }
        }
        _ => usage(),
    }
}

fn run_prop(prop: &str, tier: Tier, seed: u64) -> i32 {
    match prop {
        "C01" => {
            let ctx = Ctx::new(
                "C01",
                tier,
                seed,
                "exploration",
                "proptest-generated op histories (append / batch append / read_next(true) / batch_read(budget,true)) over 1-4 topics, 3 size profiles (tiny, block-filling with entries aimed at exact block ends, >10 MiB entries), Strict and AtLeastOnce, fd and mmap, each followed by a generated drain; every read is compared with a FIFO reference model. Non-trivial = the history contains a consuming batch read issued while the cursor is inside a sealed block and the tail holds entries, or a zero-length entry returned through the batch API, or a read that crosses a block end; distinct = distinct hash of the generated case.",
                &["payload identity is judged by (length, 64-bit content hash) computed in the child by harness code", "executor built with opt-level 2, debug assertions and overflow checks on"],
            );
            props::seq::c01(&ctx);
            ctx.finish(tier.pick(40, 400))
        }
        "C03" => {
            let ctx = Ctx::new(
                "C03",
                tier,
                seed,
                "exploration",
                "proptest-generated histories dominated by batch reads with budgets aimed at the model (0, 1, len(next)±1, sum(next k)±1, arbitrary, usize::MAX) at generated cursor positions, batches of up to 2000 tiny entries; oracle: <=2000 entries, payload sum <= budget unless exactly one entry, non-empty whenever the model has an unconsumed entry. Non-trivial = budget smaller than the next entry, or the 2000 cap was hit, or the cursor sat at an exact block end with data behind it.",
                &["progress is judged against the FIFO model; a content divergence (C01's subject) ends the case without verdict"],
            );
            props::seq::c03(&ctx);
            ctx.finish(tier.pick(40, 400))
        }
        "C15" => {
            let ctx = Ctx::new(
                "C15",
                tier,
                seed,
                "exploration",
                "E1 histories (appends, batches, rejected operations, consuming reads, peeks, offset-addressed reads, reopen events) with a count probe after every operation and count-map probes; oracle: count == appended - consumed per the FIFO model (after a restart only in StrictlyAtOnce mode). Non-trivial = a count probe in a history that also has a rejected operation, a zero-length entry returned by a batch read, a restart with a tail cursor, a rotation or an offset-addressed read. Concurrent clause (search concurrent-quiescent-count): generated 2-3 thread producer/consumer programs run under the H2 token scheduler with a generated schedule; after all threads are joined the count of every topic must equal successfully appended minus returned entries; non-trivial there = operations of different threads overlapped in time.",
                &["counts after an AtLeastOnce restart are not judged (the property does not promise them)"],
            );
            props::seq::c15(&ctx);
            props::conc::c15_concurrent(&ctx, tier.pick(500, 20_000));
            ctx.finish(tier.pick(40, 400))
        }
        "C06" => {
            let ctx = Ctx::new(
                "C06",
                tier,
                seed,
                "exploration",
                "E1 histories (appends, batches, rejected operations, consuming reads, peeks, counts) with 1..n reopen events (fresh process via clean exit, or drop+rebuild in the same process) and wall-clock regression between lifetimes (earlier WAL files renamed to future timestamps); payloads 0 B .. 25 MiB. Oracle: StrictlyAtOnce - the FIFO model ignores reopen events entirely (stream, order, remaining entries, counts); AtLeastOnce - the cursor may move back, never forward (candidate-set model, contiguity after resynchronisation). Non-trivial = a consuming read returns data after a reopen and the history has a multi-unit block, a tail cursor, an allocated-but-empty block, >=2 reopens or a clock regression.",
                &["clean shutdown = every append returned, then normal process exit (or drop); process-level persistence (page cache) is assumed, power loss is C10's subject"],
            );
            props::seq::c06(&ctx);
            ctx.finish(tier.pick(40, 400))
        }
        "C17" => {
            let ctx = Ctx::new(
                "C17",
                tier,
                seed,
                "exploration",
                "histories over append / mark_topic_clean / mark_topic_dirty / topic_is_clean / sleep{1,5,20,250 ms} / reopen (fresh process or in-process) on 1-3 topics; after every reopen every topic is probed. Oracle: boolean per topic (default clean; append => dirty; marks set it; reopen keeps it). Non-trivial = a reopen whose preceding calls changed a marker.",
                &["marker persistence is asynchronous in the engine; while the known finding C17-marker-lost-on-immediate-exit is open the main search waits 250 ms (50x the coalescing window) before a reopen that follows a marker change"],
            );
            props::seq::c17(&ctx);
            ctx.finish(tier.pick(40, 400))
        }
        "C16" => {
            let ctx = Ctx::new(
                "C16",
                tier,
                seed,
                "exploration",
                "differential testing: each generated E1 history (appends, batches incl. batches spanning rotations, both read APIs, peeks, offset-addressed reads, counts, rejected operations, reopen events) is expanded and executed with the FD/io_uring backend, then exactly the same concrete steps are replayed in separate processes with the mmap backend; every response is compared (Ok/Err kind, entries by (length, content hash), counts). Non-trivial = the history contains a batch append spanning a rotation, or a batch read issued with the cursor in a sealed block while the tail holds entries, or rotations together with batch reads.",
                &["error messages are compared by ErrorKind only", "io_uring is available in this sandbox, so the FD run really uses it"],
            );
            props::seq::c16(&ctx);
            ctx.finish(tier.pick(30, 300))
        }
        "C02" => {
            let ctx = Ctx::new(
                "C02",
                tier,
                seed,
                "exploration",
                "E1 histories with peeks (read_next(false), batch_read(b,false,None)) and offset-addressed reads (any offset class: boundary / inside payload / inside header / end / beyond / arbitrary; checkpoint true and false) interleaved with appends and consuming reads. Relation 1: every peek is immediately followed by the consuming read with identical arguments and must return the same entries. Relation 2 (metamorphic): the same history with all non-consuming reads erased is executed in a second run; all consuming results, counts, the final file count and the reclamation bookkeeping (H3 tracker view) after a full drain must be identical. Relation 3: every element of an offset-addressed read is an appended payload of that topic (or, for the first element, a suffix of one), in strictly increasing append order. Non-trivial = a peek issued with the cursor at a block end, or an offset read with checkpoint=true in AtLeastOnce mode, or peek pairs / offset reads in a history with rotations.",
                &["H3 (cfg walrus_verif) exposes per-file locked/checkpointed/total counters read-only", "file names are wall-clock based, so tracker views are compared as multisets of counters"],
            );
            props::seq::c02(&ctx);
            ctx.finish(tier.pick(30, 300))
        }
        "C14" => {
            let ctx = Ctx::new(
                "C14",
                tier,
                seed,
                "exploration",
                "key strings from a grammar over character classes (alnum, '-_.', '/', '\\', space, tab, NUL, control, non-ASCII, emoji, 250-300 byte names, dot runs, '../' runs) plus a list of special keys ('', '.', '..', '...', './x', '../x', 'a/../b', '/etc', ...), each through one of six construction paths (builder+data_dir, builder+WALRUS_DATA_DIR, new_for_key, with_consistency_for_key, with_consistency_and_schedule_for_key, new()+WALRUS_INSTANCE_KEY). The child snapshots the whole scratch tree before and after building the instance, appending, reading and marking. Oracle: the constructor failed and created nothing outside the data dir, or every new path lies under <data dir>/<c>/ for one component c not in {'', '.', '..'} and no file appears directly in the data dir or outside it. Each evaluation = one key; non-trivial = the key has a dot-only component, a separator, NUL, non-ASCII characters or is empty.",
                &["NUL is removed from keys passed through environment variables (std::env::set_var cannot carry it)"],
            );
            props::keys::c14(&ctx);
            ctx.finish(tier.pick(100, 1000))
        }
        "C07" => {
            let ctx = Ctx::new(
                "C07",
                tier,
                seed,
                "fault_enumeration",
                "generated workloads (appends, batches spanning rotations, a few consuming reads; all fsync schedules; fd and mmap; Strict and AtLeastOnce) are first run under an H1 trace to enumerate their foreground I/O events (block write, batch SQE, submit, flush, publish, file create/set_len/fsync, dir fsync, index tmp write/fsync/rename); then the workload is re-executed once per selected event k with the process terminated (_exit) right before event k - or, for block writes, after a generated prefix of the write (torn write) - and a fresh process reopens and drains. Quick: <=16 (tiny) / <=12 (block) crash points per workload, stratified (first/last event of every multi-event operation first); thorough: up to 400 per workload, i.e. normally all. Oracle: reopen succeeds; per topic the drained stream is acknowledged-unconsumed entries in order followed by an in-order subset of the in-flight operation's entries, nothing else. Each evaluation = one (workload, crash point); non-trivial = the crash point lies strictly inside an operation that performs >=2 events, or is a torn write.",
                &["process-crash model: completed syscalls (and completed stores into a shared mapping) persist; power loss is C10", "background-thread I/O (marker persister, fsync worker) is not part of the foreground event numbering"],
            );
            props::crash::c07(&ctx);
            ctx.finish(tier.pick(100, 2000))
        }
        "C08" => {
            let ctx = Ctx::new(
                "C08",
                tier,
                seed,
                "fault_enumeration",
                "workloads ending in / containing batch appends of 1..2000 entries spanning 1-3 blocks; crash (process termination via H1) before every I/O event of every batch operation: per-entry block writes on the mmap path, j-of-n io_uring submissions on the fd path (the first j queued writes are carried out, then the process dies), submit, flushes, offset publish. Oracle: after recovery the topic holds the acknowledged entries followed by all or none of the in-flight batch. Each evaluation = one (workload, crash point); non-trivial = crash point strictly inside a batch operation.",
                &["crash points strictly inside the data writes of a multi-entry batch are excluded from the main search while known finding C08-prefix is open; its probe demonstrates them"],
            );
            props::crash::c08(&ctx);
            ctx.finish(tier.pick(60, 1500))
        }
        "C09" => {
            let ctx = Ctx::new(
                "C09",
                tier,
                seed,
                "fault_enumeration",
                "workloads mixing appends, read_next and consuming batch reads at sealed and tail positions, StrictlyAtOnce and AtLeastOnce{1..8}; crash before every I/O event of the consuming reads (index tmp write, fsync, rename) and at events between them; fresh-process reopen and drain. Oracle: StrictlyAtOnce - the first redelivered entry index is exactly the acknowledged consumption (the read in flight may go either way) and the stream is contiguous; AtLeastOnce - never a skip, and for topics consumed through read_next only at most persist_every entries are delivered again. Each evaluation = one (workload, crash point); non-trivial = crash inside a consuming read's persist sequence or after >=1 acknowledged consuming read.",
                &["same process-crash model as C07"],
            );
            props::crash::c09(&ctx);
            ctx.finish(tier.pick(100, 2000))
        }
        "C10" => {
            let ctx = Ctx::new(
                "C10",
                tier,
                seed,
                "fault_enumeration",
                "generated FsyncSchedule::SyncEach workloads (3-14 operations: appends, batches, read_next, consuming batch reads; payloads <= 64 KiB; StrictlyAtOnce and AtLeastOnce; fd and mmap) are executed once under an H1 trace that records every foreground I/O event with its bytes (file create / set_len / fsync, directory fsync, block writes, io_uring writes, flushes, cursor-file tmp write / fsync / rename). For loss points after event k (quick: 10 per workload, thorough: all) the directory is rebuilt from the trace prefix: writes flushed by a later flush/fsync of their file, tmp-file content fsynced, and directory entries covered by a later directory fsync are durable; every other write, set_len, file creation and rename is kept or lost independently (none, all, all subsets when there are few unsynced items, otherwise 6 sampled subsets). A fresh process opens each rebuilt directory and drains every topic. Oracle: every append acknowledged before the loss point is delivered in order (entries of the operation in flight may follow), nothing foreign; in StrictlyAtOnce mode entries whose consuming read had returned are not delivered again. Each evaluation = one (workload, loss point, subset); non-trivial = at least one unsynced item was dropped.",
                &["power-loss model of the property: only explicitly synced data and directory entries are durable, unsynced items are independent", "clean-marker files are outside this property and are not rebuilt"],
            );
            props::power::c10(&ctx);
            ctx.finish(tier.pick(100, 2000))
        }
        "C11" => {
            let ctx = Ctx::new(
                "C11",
                tier,
                seed,
                "exploration",
                "a generated workload (appends, batches, consuming reads, marker calls over 1-3 topics; tiny and block-sized payloads) builds a valid directory and exits cleanly; 1-4 generated mutations are then applied: bit flips / byte sets / zeroed ranges / truncation aimed at entry headers (found in the WAL files by their owner string; length prefix, rkyv body incl. read_size and the relative string pointer), at payloads, anywhere in the allocated part, at the cursor file and the marker file; truncating / extending files; swapping two 10 MiB units; stray files (leftover *.tmp, empty all-digit file, all-digit directory, WAL-looking garbage file, non-UTF-8 name); removing the cursor or marker file. A fresh process (debug assertions and overflow checks on, so out-of-bounds and misaligned accesses inside the engine's unsafe decoding trap) opens the directory and reads every topic through every read API, with a 60 s watchdog. Oracle: no panic, abort, signal or hang; a clean Err from the constructor is accepted; every returned payload is an appended payload of that topic (first element of an offset read may be a suffix). Non-trivial = an effective mutation hit a decoded region (length prefix, header body, cursor or marker file) or changed the file structure (truncate, extend, swap, stray file).",
                &["undefined behaviour is detected through rustc's debug assertions (bounds, alignment, overflow) rather than a sanitizer build", "loss, duplication and reordering of entries are allowed here (other properties)"],
            );
            props::damage::c11(&ctx);
            ctx.finish(tier.pick(100, 2000))
        }
        "C13" => {
            let ctx = Ctx::new(
                "C13",
                tier,
                seed,
                "exploration",
                "2-3 live instances in one process, drawn from five (data dir, namespace key) slots that pairwise differ in the directory or in the sanitised key, all using the same topic names; generated interleaved histories (appends, batches, consuming reads, peeks, counts, mark clean/dirty, is_clean, in-process close+reopen of one instance while the others live, optional whole-process restart before the final drain) with per-instance consistency mode and fsync schedule; every response is judged against that instance's own FIFO / marker model, an entry known to another instance's model is reported as foreign, and the WAL files under the other instances' directories must not disappear because of an operation on this one. Heavy search: both instances allocate >100 blocks in lock-step (their block ids collide in the process-global trackers); instance 1 consumes everything, instance 0 nothing / 5 entries / peeks only; after 1.7 s (reclaimer) no WAL file of instance 0 may be gone, and after a process restart every instance must deliver exactly its unconsumed entries. Non-trivial (light) = the same topic holds different data in two instances and an instance was reopened or the process restarted; (heavy) = the reclaimer wait was reached.",
                &["instances live in one child process; payload identity by (length, 64-bit hash), unique across instances for payloads >= 8 bytes"],
            );
            props::multi::c13(&ctx);
            ctx.finish(tier.pick(40, 400))
        }
        "C12" => {
            let ctx = Ctx::new(
                "C12",
                tier,
                seed,
                "exploration",
                "generated reclamation histories on the real geometry (10 MiB blocks, 100 blocks per file, FsyncSchedule::Milliseconds(1)): generated (topic, blocks) fills over 1-5 topics allocate the whole first WAL file and move every topic's active block into the second file; each topic then follows a generated plan (full drain plus 0-5 empty polls / partial consumption / peeks only / nothing), followed by generated extra reads and peeks; the case waits 1.7 s (the reclaimer deletes after 1000 one-millisecond ticks), runs a generated second phase of appends and reads, and finally - after a fresh-process restart in 3 of 4 cases, otherwise before and after one - drains every topic against the FIFO model: exactly the unconsumed entries must be delivered, in order (AtLeastOnce: the cursor may move back, never skip). Non-trivial = the first file became fully allocated and a WAL file was deleted, or was eligible, or was kept while entries were unconsumed. Distinct = distinct generated case.",
                &["the tracker view (H3) and the directory listing only label cases; the verdict comes from the FIFO model", "a deleted file stays readable through existing mappings inside the process, so loss shows after the restart"],
            );
            props::reclaim::c12(&ctx);
            ctx.finish(tier.pick(8, 100))
        }
        "C05" => {
            let ctx = Ctx::new(
                "C05",
                tier,
                seed,
                "exploration",
                "generated concurrent cases executed under the H2 token scheduler (one registered thread runs at a time; at each of the engine's lock-free yield points the generated schedule picks the next runnable thread): sequential prefill that leaves a generated amount of room in the writer's active block (so rotations happen during the race), 2-4 thread programs of 1-10 operations (append, batch append of 2-5, read_next(true), batch_read(budget,true)) on 1-2 topics, schedules built from (thread, run-length) segments, StrictlyAtOnce and AtLeastOnce, fd and mmap, then a sequential generated drain. A second engine enumerates, for generated two-thread programs of <=3 operations, every schedule with at most two preemptions at every combination of yield-point positions. Oracle: exactly-once multiset (delivered == successfully appended, entries of failed appends never delivered), per-producer order inside every read result and between reads ordered in real time (logical invoke/return stamps), batch contiguity inside each read result and in the drained sequence of the producers-only variant. Non-trivial = two consuming reads on one topic overlap in time and both deliver entries, or reads overlap while the writer is within a few KiB of its block end, or (producers-only variant) appends of different threads overlap. Distinct = distinct (program, schedule).",
                &["H2 yield points sit only where the engine holds no lock; true parallel data races inside a critical section are outside this schedule space", "reads that overlap in time are not ordered against each other"],
            );
            props::conc::c05(&ctx);
            ctx.finish(tier.pick(100, 2000))
        }
        "C04" => {
            let ctx = Ctx::new(
                "C04",
                tier,
                seed,
                "fault_enumeration",
                "two families of generated cases. (i) E1 histories with operations the engine must reject (2001 entries, >10 GiB via aliased slices, an entry >1 GiB alone and inside a batch, empty batch, topic names that do not fit the 256-byte entry header on the single and the batch path) interleaved with appends, both read APIs, counts and restarts; non-trivial = a rejected or failed operation in a history that also has a rotation or data read after a reopen. (ii) fault injection through the H1 seam: the I/O events of every append / batch append of a generated workload are enumerated by a traced run (block write, io_uring SQE, submit, flush, file create/set_len/fsync, dir fsync); the workload is re-executed once per selected (event, fault) with that event failing (EIO/ENOSPC) or, for io_uring writes, completing short; the failing call must return Err, and all later reads, appends, a full drain, a fresh-process reopen and a second drain must agree with the FIFO model in which the failed call never happened. Each evaluation = one history or one (workload, fault); non-trivial (ii) = the fault surfaced as Err and it hit a batch after that batch had sealed a block, or the failed operation was the first on its topic, or a later successful append was read back after the reopen.",
                &["injected faults model an I/O error reported by the kernel; the data of a failed write is not on disk (short io_uring completions: the engine is told fewer bytes than were written)", "visibility of successful batches to concurrent readers is C05's subject"],
            );
            props::fault::c04(&ctx);
            ctx.finish(tier.pick(60, 1000))
        }
        other => {
            eprintln!("unknown property {}", other);
            2
        }
    }
}

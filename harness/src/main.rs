fn main(){}

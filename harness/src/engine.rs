//! Parallel proptest-driven search, shrinking, evidence, replay files (DESIGN §3.4, §3.7).
use proptest::strategy::{BoxedStrategy, Strategy, ValueTree};
use proptest::test_runner::{Config, RngAlgorithm, TestRng, TestRunner};
use serde::Serialize;
use serde_json::{json, Value};
use std::collections::{BTreeMap, BTreeSet, HashSet};
use std::sync::atomic::{AtomicBool, AtomicU64, Ordering};
use std::sync::Mutex;
use std::time::Instant;

#[derive(Clone, Copy, Debug, PartialEq, Eq)]
pub enum Tier {
    Quick,
    Thorough,
}
impl Tier {
    pub fn name(&self) -> &'static str {
        match self {
            Tier::Quick => "quick",
            Tier::Thorough => "thorough",
        }
    }
    pub fn pick<T>(&self, q: T, t: T) -> T {
        match self {
            Tier::Quick => q,
            Tier::Thorough => t,
        }
    }
}

#[derive(Clone, Debug, Default)]
pub struct CaseReport {
    pub features: BTreeSet<String>,
    pub nontrivial: bool,
    pub excluded: BTreeMap<String, u64>,
    /// (message, replay body)
    pub violation: Option<(String, Value)>,
    pub inconclusive: Option<String>,
    /// a compact rendering of the case for evidence samples
    pub sample: Option<Value>,
    /// extra evaluations performed inside this case (sub-cases: crash points, fault positions…)
    pub sub_evaluations: u64,
    pub sub_nontrivial: u64,
}

pub fn splitmix(mut z: u64) -> u64 {
    z = z.wrapping_add(0x9E37_79B9_7F4A_7C15);
    z = (z ^ (z >> 30)).wrapping_mul(0xBF58_476D_1CE4_E5B9);
    z = (z ^ (z >> 27)).wrapping_mul(0x94D0_49BB_1331_11EB);
    z ^ (z >> 31)
}

pub fn str_hash(s: &str) -> u64 {
    let mut h = 0xcbf2_9ce4_8422_2325u64;
    for b in s.bytes() {
        h ^= b as u64;
        h = h.wrapping_mul(0x100_0000_01b3);
    }
    splitmix(h)
}

pub fn rng_for(seed: u64, prop: &str, search: &str, worker: u64) -> TestRng {
    let mut s = [0u8; 32];
    let mut x = splitmix(seed ^ str_hash(prop)) ^ splitmix(str_hash(search).wrapping_add(worker.wrapping_mul(0x9E37_79B9)));
    for c in s.chunks_mut(8) {
        x = splitmix(x);
        c.copy_from_slice(&x.to_le_bytes());
    }
    TestRng::from_seed(RngAlgorithm::ChaCha, &s)
}

pub struct Ctx {
    pub prop: String,
    pub tier: Tier,
    pub seed: u64,
    pub level: String,
    pub rule: String,
    pub assumptions: Vec<String>,
    pub start: Instant,
    pub evaluations: AtomicU64,
    pub nontrivial_hashes: Mutex<HashSet<u64>>,
    pub sub_nontrivial: AtomicU64,
    pub features: Mutex<BTreeMap<String, u64>>,
    pub excluded: Mutex<BTreeMap<String, u64>>,
    pub samples: Mutex<Vec<Value>>,
    pub violations: Mutex<Vec<(String, String)>>, // (message, replay path)
    pub known_findings: Mutex<Vec<String>>,
    pub inconclusive: Mutex<Vec<String>>,
    pub extra: Mutex<BTreeMap<String, Value>>,
    pub stop: AtomicBool,
    pub searches: Mutex<Vec<Value>>,
    pub exhaustive: AtomicBool,
}

impl Ctx {
    pub fn new(prop: &str, tier: Tier, seed: u64, level: &str, rule: &str, assumptions: &[&str]) -> Ctx {
        Ctx {
            prop: prop.to_string(),
            tier,
            seed,
            level: level.to_string(),
            rule: rule.to_string(),
            assumptions: assumptions.iter().map(|s| s.to_string()).collect(),
            start: Instant::now(),
            evaluations: AtomicU64::new(0),
            nontrivial_hashes: Mutex::new(HashSet::new()),
            sub_nontrivial: AtomicU64::new(0),
            features: Mutex::new(BTreeMap::new()),
            excluded: Mutex::new(BTreeMap::new()),
            samples: Mutex::new(Vec::new()),
            violations: Mutex::new(Vec::new()),
            known_findings: Mutex::new(Vec::new()),
            inconclusive: Mutex::new(Vec::new()),
            extra: Mutex::new(BTreeMap::new()),
            stop: AtomicBool::new(false),
            searches: Mutex::new(Vec::new()),
            exhaustive: AtomicBool::new(false),
        }
    }

    pub fn record(&self, case_hash: u64, rep: &CaseReport) {
        self.evaluations.fetch_add(1 + rep.sub_evaluations, Ordering::Relaxed);
        if rep.nontrivial {
            self.nontrivial_hashes.lock().unwrap().insert(case_hash);
        }
        if rep.sub_nontrivial > 0 {
            // sub-cases are distinct by construction (distinct crash points / fault positions of
            // one distinct parent case); count them only if the parent is new
            let mut g = self.nontrivial_hashes.lock().unwrap();
            for i in 0..rep.sub_nontrivial {
                g.insert(splitmix(case_hash ^ (i + 1).wrapping_mul(0xA076_1D64_78BD_642F)));
            }
        }
        {
            let mut f = self.features.lock().unwrap();
            for k in &rep.features {
                *f.entry(k.clone()).or_insert(0) += 1;
            }
        }
        {
            let mut e = self.excluded.lock().unwrap();
            for (k, n) in &rep.excluded {
                *e.entry(k.clone()).or_insert(0) += n;
            }
        }
        if let Some(m) = &rep.inconclusive {
            let mut g = self.inconclusive.lock().unwrap();
            if g.len() < 20 {
                g.push(m.clone());
            }
        }
        if let Some(s) = &rep.sample {
            let mut g = self.samples.lock().unwrap();
            // keep a few: prefer non-trivial ones
            if g.len() < 4 && (rep.nontrivial || g.is_empty()) {
                g.push(s.clone());
            }
        }
    }

    pub fn write_replay(&self, body: &Value, tag: &str) -> String {
        let dir = format!("{}/replays/{}", verif_root(), self.prop);
        let _ = std::fs::create_dir_all(&dir);
        let s = serde_json::to_string_pretty(body).unwrap();
        let path = format!("{}/{}-{:016x}.json", dir, tag, str_hash(&s));
        let _ = std::fs::write(&path, s);
        path
    }

    pub fn violation(&self, msg: &str, body: &Value) {
        let path = self.write_replay(body, "viol");
        self.violations.lock().unwrap().push((msg.to_string(), path));
        self.stop.store(true, Ordering::SeqCst);
    }

    pub fn violated(&self) -> bool {
        !self.violations.lock().unwrap().is_empty()
    }

    pub fn set_extra(&self, k: &str, v: Value) {
        self.extra.lock().unwrap().insert(k.to_string(), v);
    }

    /// Write evidence, print verdict lines, return the exit code.
    pub fn finish(&self, nontrivial_floor: u64) -> i32 {
        let wall = self.start.elapsed().as_secs_f64();
        let evaluations = self.evaluations.load(Ordering::Relaxed);
        let distinct = self.nontrivial_hashes.lock().unwrap().len() as u64;
        let viols = self.violations.lock().unwrap().clone();
        let inconc = self.inconclusive.lock().unwrap().clone();
        let mut coverage = serde_json::Map::new();
        coverage.insert("evaluations".into(), json!(evaluations));
        coverage.insert("distinct_nontrivial".into(), json!(distinct));
        coverage.insert("rule".into(), json!(self.rule));
        let mut samples = self.samples.lock().unwrap().clone();
        if samples.is_empty() {
            samples.push(json!("(no case was executed)"));
        }
        coverage.insert("samples".into(), Value::Array(samples));
        coverage.insert("features".into(), json!(*self.features.lock().unwrap()));
        coverage.insert("excluded_by_known_findings".into(), json!(*self.excluded.lock().unwrap()));
        coverage.insert("known_findings_reproduced".into(), json!(*self.known_findings.lock().unwrap()));
        coverage.insert("inconclusive_cases".into(), json!(inconc.len()));
        coverage.insert("searches".into(), Value::Array(self.searches.lock().unwrap().clone()));
        if self.exhaustive.load(Ordering::Relaxed) {
            coverage.insert("exhaustive".into(), json!(true));
        }
        for (k, v) in self.extra.lock().unwrap().iter() {
            coverage.insert(k.clone(), v.clone());
        }
        let ev = json!({
            "property_id": self.prop,
            "tier": self.tier.name(),
            "seed": self.seed,
            "level": self.level,
            "coverage": Value::Object(coverage),
            "assumptions": self.assumptions,
            "wall_s": (wall * 1000.0).round() / 1000.0,
            "violations": viols.len(),
        });
        let dir = format!("{}/evidence", verif_root());
        let _ = std::fs::create_dir_all(&dir);
        let path = format!("{}/{}.json", dir, self.prop);
        let tmp = format!("{}.tmp{}", path, std::process::id());
        std::fs::write(&tmp, serde_json::to_string_pretty(&ev).unwrap()).expect("write evidence");
        std::fs::rename(&tmp, &path).expect("rename evidence");
        for k in self.known_findings.lock().unwrap().iter() {
            println!("KNOWN-FINDING: property={} {}", self.prop, k);
        }
        if !viols.is_empty() {
            for (m, p) in &viols {
                println!("VIOLATION property={} replay={}", self.prop, p);
                println!("  {}", m);
            }
            return 1;
        }
        if !inconc.is_empty() && inconc.len() as u64 * 20 > evaluations.max(1) {
            println!("INCONCLUSIVE property={} {} of {} cases hit a harness problem, e.g. {}", self.prop, inconc.len(), evaluations, inconc[0]);
            return 2;
        }
        if distinct < nontrivial_floor {
            println!(
                "INCONCLUSIVE property={} only {} distinct non-trivial cases (floor {}) in {} evaluations",
                self.prop, distinct, nontrivial_floor, evaluations
            );
            return 2;
        }
        println!(
            "OK property={} tier={} seed={} evaluations={} distinct_nontrivial={} wall_s={:.1}",
            self.prop,
            self.tier.name(),
            self.seed,
            evaluations,
            distinct,
            wall
        );
        0
    }
}

pub fn verif_root() -> String {
    std::env::var("VERIF_ROOT").unwrap_or_else(|_| "/verif".to_string())
}

pub struct Search<C: 'static> {
    pub name: String,
    pub strategy: Box<dyn Fn() -> BoxedStrategy<C> + Sync + Send>,
    pub run: Box<dyn Fn(&C) -> CaseReport + Sync + Send>,
    pub cases: usize,
    pub workers: usize,
    pub max_shrink_iters: usize,
    pub shrink_secs: u64,
}

/// Run `cases` generated cases on `workers` threads. On the first violation: shrink it on the
/// worker that found it, write the replay file, stop everybody.
pub fn run_search<C>(ctx: &Ctx, s: &Search<C>)
where
    C: Clone + std::fmt::Debug + Serialize + Send + 'static,
{
    if ctx.stop.load(Ordering::SeqCst) {
        return;
    }
    let t0 = Instant::now();
    let scale: f64 = std::env::var("WVERIF_CASE_SCALE").ok().and_then(|v| v.parse().ok()).unwrap_or(1.0);
    let workers: usize = std::env::var("WVERIF_WORKERS").ok().and_then(|v| v.parse().ok()).unwrap_or(s.workers).max(1);
    let only = std::env::var("WVERIF_ONLY_SEARCH").ok();
    if let Some(o) = &only {
        if o != &s.name {
            return;
        }
    }
    let cases = ((s.cases as f64) * scale).ceil() as usize;
    let per = (cases + workers - 1) / workers;
    let done = AtomicU64::new(0);
    let gen_failures = AtomicU64::new(0);
    std::thread::scope(|scope| {
        for w in 0..workers {
            let done = &done;
            let gen_failures = &gen_failures;
            scope.spawn(move || {
                let strat = (s.strategy)();
                let cfg = Config { failure_persistence: None, ..Config::default() };
                let mut runner = TestRunner::new_with_rng(cfg, rng_for(ctx.seed, &ctx.prop, &s.name, w as u64));
                for _ in 0..per {
                    if ctx.stop.load(Ordering::SeqCst) {
                        return;
                    }
                    let mut tree = match strat.new_tree(&mut runner) {
                        Ok(t) => t,
                        Err(_) => {
                            gen_failures.fetch_add(1, Ordering::Relaxed);
                            continue;
                        }
                    };
                    let case = tree.current();
                    let rep = (s.run)(&case);
                    let h = str_hash(&serde_json::to_string(&case).unwrap_or_default());
                    ctx.record(h, &rep);
                    done.fetch_add(1, Ordering::Relaxed);
                    if let Some((msg, body)) = rep.violation.clone() {
                        // claim the right to shrink
                        if ctx.stop.swap(true, Ordering::SeqCst) {
                            return;
                        }
                        let mut best = (msg, body);
                        let mut iters = 0usize;
                        let st = Instant::now();
                        if tree.simplify() {
                            loop {
                                if iters >= s.max_shrink_iters || st.elapsed().as_secs() > s.shrink_secs {
                                    break;
                                }
                                iters += 1;
                                let c = tree.current();
                                let r = (s.run)(&c);
                                if let Some(v) = r.violation {
                                    best = v;
                                    if !tree.simplify() {
                                        break;
                                    }
                                } else if !tree.complicate() {
                                    break;
                                }
                            }
                        }
                        let mut body = best.1.clone();
                        if let Value::Object(m) = &mut body {
                            m.insert("shrink_iterations".into(), json!(iters));
                            m.insert("search".into(), json!(s.name));
                            m.insert("message".into(), json!(best.0));
                        }
                        ctx.violation(&best.0, &body);
                        return;
                    }
                }
            });
        }
    });
    ctx.searches.lock().unwrap().push(json!({
        "name": s.name,
        "cases_requested": s.cases,
        "cases_run": done.load(Ordering::Relaxed),
        "generator_rejections": gen_failures.load(Ordering::Relaxed),
        "wall_s": (t0.elapsed().as_secs_f64() * 10.0).round() / 10.0,
    }));
}

// ------------------------------------------------------------------------------------------
// known findings (committed file, never written at run time)

#[derive(Clone, Debug, serde::Deserialize)]
pub struct Finding {
    pub status: String, // "open" | "fixed"
    pub property: String,
    pub id: String,
    pub what: String,
    #[serde(default)]
    pub probe: Option<String>,
    #[serde(default)]
    pub excluded_by: Vec<String>,
    #[serde(default)]
    pub commit: Option<String>,
    /// additional properties whose searches must also avoid the trigger pattern
    #[serde(default)]
    pub also_excluded_in: Vec<String>,
}

pub fn load_findings() -> Vec<Finding> {
    let p = format!("{}/known_findings.json", verif_root());
    match std::fs::read_to_string(&p) {
        Ok(s) => serde_json::from_str::<Vec<Finding>>(&s).unwrap_or_else(|e| panic!("known_findings.json: {}", e)),
        Err(_) => Vec::new(),
    }
}

/// exclusion rules active for a property: those of its own open findings plus the ones other
/// properties' open findings declare for it
pub fn exclusions_for(prop: &str) -> BTreeSet<String> {
    let mut s = BTreeSet::new();
    for f in load_findings() {
        if f.status == "open" && (f.property == prop || f.also_excluded_in.iter().any(|p| p == prop)) {
            for r in f.excluded_by {
                s.insert(r);
            }
        }
    }
    s
}

pub fn open_findings(prop: &str) -> Vec<Finding> {
    load_findings().into_iter().filter(|f| f.status == "open" && f.property == prop).collect()
}

pub fn regress_files(prop: &str) -> Vec<String> {
    let dir = format!("{}/replays/{}", verif_root(), prop);
    let mut v: Vec<String> = std::fs::read_dir(&dir)
        .map(|rd| {
            rd.filter_map(|e| e.ok())
                .map(|e| e.path().to_string_lossy().into_owned())
                .filter(|p| {
                    let n = p.rsplit('/').next().unwrap_or("");
                    n.starts_with("regress-") && n.ends_with(".json")
                })
                .collect()
        })
        .unwrap_or_default();
    v.sort();
    v
}

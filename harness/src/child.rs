//! Driver-side handle of a child executor process.
use crate::proto::*;
use std::io::{BufRead, BufReader, Write};
use std::process::{Child, ChildStdin, Command, Stdio};
use std::sync::mpsc::{channel, Receiver, RecvTimeoutError};
use std::time::Duration;

pub struct ChildProc {
    child: Child,
    stdin: Option<ChildStdin>,
    rx: Receiver<String>,
    pub stderr_tail: std::sync::Arc<std::sync::Mutex<Vec<String>>>,
    pub timeout: Duration,
}

#[derive(Clone, Debug, Default)]
pub struct SpawnOpts {
    /// extra environment (H1 plan, trace file, …)
    pub env: Vec<(String, String)>,
    /// use the ASan-instrumented executor binary (C11)
    pub exe: Option<String>,
    pub timeout_ms: Option<u64>,
}

pub fn self_exe() -> String {
    std::env::current_exe().unwrap().to_string_lossy().into_owned()
}

impl ChildProc {
    pub fn spawn(init: &Init, opts: &SpawnOpts) -> std::io::Result<ChildProc> {
        let exe = opts.exe.clone().unwrap_or_else(self_exe);
        let mut cmd = Command::new(exe);
        cmd.arg("exec").stdin(Stdio::piped()).stdout(Stdio::piped()).stderr(Stdio::piped());
        cmd.env("WALRUS_QUIET", "1");
        cmd.env_remove("WALRUS_DATA_DIR");
        cmd.env_remove("WALRUS_INSTANCE_KEY");
        for (k, v) in &opts.env {
            cmd.env(k, v);
        }
        let mut child = cmd.spawn()?;
        let stdin = child.stdin.take();
        let stdout = child.stdout.take().unwrap();
        let stderr = child.stderr.take().unwrap();
        let (tx, rx) = channel::<String>();
        std::thread::spawn(move || {
            let r = BufReader::with_capacity(1 << 16, stdout);
            for line in r.lines() {
                let Ok(line) = line else { break };
                if let Some(rest) = line.strip_prefix("@@ ") {
                    if tx.send(rest.to_string()).is_err() {
                        break;
                    }
                }
            }
        });
        let tail = std::sync::Arc::new(std::sync::Mutex::new(Vec::new()));
        let tail2 = tail.clone();
        std::thread::spawn(move || {
            let r = BufReader::new(stderr);
            for line in r.lines() {
                let Ok(line) = line else { break };
                let mut t = tail2.lock().unwrap();
                t.push(line);
                if t.len() > 60 {
                    t.remove(0);
                }
            }
        });
        let mut c = ChildProc {
            child,
            stdin,
            rx,
            stderr_tail: tail,
            timeout: Duration::from_millis(opts.timeout_ms.unwrap_or(120_000)),
        };
        let s = serde_json::to_string(init).unwrap();
        c.send_line(&s);
        match c.recv() {
            Resp::Ok => Ok(c),
            other => Err(std::io::Error::new(std::io::ErrorKind::Other, format!("child init failed: {:?}", other))),
        }
    }

    fn send_line(&mut self, s: &str) {
        if let Some(si) = self.stdin.as_mut() {
            let _ = si.write_all(s.as_bytes());
            let _ = si.write_all(b"\n");
            let _ = si.flush();
        }
    }

    fn recv(&mut self) -> Resp {
        match self.rx.recv_timeout(self.timeout) {
            Ok(l) => serde_json::from_str::<Resp>(&l).unwrap_or_else(|e| Resp::Unsupported(format!("bad resp {}: {}", e, l))),
            Err(RecvTimeoutError::Timeout) => {
                let _ = self.child.kill();
                let _ = self.child.wait();
                Resp::Timeout
            }
            Err(RecvTimeoutError::Disconnected) => {
                use std::os::unix::process::ExitStatusExt;
                let st = self.child.wait();
                let code = match &st {
                    Ok(s) => s.code().map(|c| format!("exit={}", c)).or_else(|| s.signal().map(|g| format!("signal={}", g))).unwrap_or_else(|| "exit=?".into()),
                    Err(e) => format!("wait failed: {}", e),
                };
                // give the stderr reader a moment to drain
                std::thread::sleep(Duration::from_millis(2));
                let tail = self.stderr_tail.lock().unwrap().join(" | ");
                Resp::Died(format!("{} stderr: {}", code, tail))
            }
        }
    }

    pub fn call(&mut self, op: &Op) -> Resp {
        let s = serde_json::to_string(op).unwrap();
        self.send_line(&s);
        self.recv()
    }

    /// Clean exit (main returns, instances dropped). Returns the exit code.
    pub fn exit(mut self, now: bool) -> Option<i32> {
        let _ = self.call(if now { &Op::ExitNow } else { &Op::Exit });
        self.stdin.take();
        self.wait_code()
    }

    pub fn wait_code(&mut self) -> Option<i32> {
        // bounded wait
        let deadline = std::time::Instant::now() + self.timeout;
        loop {
            match self.child.try_wait() {
                Ok(Some(st)) => {
                    use std::os::unix::process::ExitStatusExt;
                    return st.code().or_else(|| st.signal().map(|s| 128 + s));
                }
                Ok(None) => {
                    if std::time::Instant::now() > deadline {
                        let _ = self.child.kill();
                        let _ = self.child.wait();
                        return None;
                    }
                    std::thread::sleep(Duration::from_millis(1));
                }
                Err(_) => return None,
            }
        }
    }

    pub fn kill(&mut self) {
        let _ = self.child.kill();
        let _ = self.child.wait();
    }
}

impl Drop for ChildProc {
    fn drop(&mut self) {
        self.stdin.take();
        let _ = self.child.kill();
        let _ = self.child.wait();
    }
}

/// Per-case scratch directory on tmpfs (fallback /var/tmp), removed on drop.
pub struct Scratch {
    pub path: std::path::PathBuf,
}
static SCRATCH_CTR: std::sync::atomic::AtomicU64 = std::sync::atomic::AtomicU64::new(0);
impl Scratch {
    pub fn new(disk: bool) -> Scratch {
        let n = SCRATCH_CTR.fetch_add(1, std::sync::atomic::Ordering::Relaxed);
        let root = if !disk && std::path::Path::new("/dev/shm").is_dir() { "/dev/shm" } else { "/var/tmp" };
        let path = std::path::PathBuf::from(format!("{}/wverif-{}-{}", root, std::process::id(), n));
        let _ = std::fs::remove_dir_all(&path);
        std::fs::create_dir_all(&path).expect("scratch dir");
        Scratch { path }
    }
    pub fn s(&self) -> String {
        self.path.to_string_lossy().into_owned()
    }
}
impl Drop for Scratch {
    fn drop(&mut self) {
        if std::env::var("WVERIF_KEEP_SCRATCH").is_ok() {
            eprintln!("scratch kept: {}", self.path.display());
            return;
        }
        let _ = std::fs::remove_dir_all(&self.path);
    }
}

//! E3: run thread programs under the H2 token scheduler (hooks build only).
use crate::proto::*;
use std::sync::Arc;
use walrus_rust::Walrus;

#[cfg(not(walrus_verif))]
pub fn run(_w: Arc<Walrus>, _topics: &[String], _threads: &[Vec<Op>], _schedule: &[u8]) -> Resp {
    Resp::Unsupported("built without --cfg walrus_verif".into())
}

#[cfg(walrus_verif)]
pub fn run(w: Arc<Walrus>, topics: &[String], threads: &[Vec<Op>], schedule: &[u8]) -> Resp {
    use walrus_rust::wal::verif;
    let n = threads.len();
    verif::sched_begin(n, schedule.to_vec());
    let results = Arc::new(std::sync::Mutex::new(Vec::<ConcRes>::new()));
    // crash searches: every invocation and every return is logged with one write(2) before the
    // thread can be descheduled, so the log of a killed process tells what was acknowledged
    let acklog: Arc<Option<std::sync::Mutex<std::fs::File>>> = Arc::new(
        std::env::var("WVERIF_CONC_ACKLOG").ok().and_then(|p| std::fs::OpenOptions::new().create(true).append(true).open(p).ok()).map(std::sync::Mutex::new),
    );
    let note = |log: &Option<std::sync::Mutex<std::fs::File>>, line: String| {
        if let Some(f) = log {
            use std::io::Write;
            let _ = f.lock().unwrap().write_all(line.as_bytes());
        }
    };
    let mut handles = Vec::new();
    for (tid, prog) in threads.iter().enumerate() {
        let w = w.clone();
        let topics = topics.to_vec();
        let prog = prog.clone();
        let results = results.clone();
        let acklog = acklog.clone();
        handles.push(std::thread::spawn(move || {
            verif::thread_start(tid);
            for (idx, op) in prog.iter().enumerate() {
                let invoked = verif::stamp();
                note(&acklog, format!("s {} {}\n", tid, idx));
                let resp = crate::exec::run_data_op(&w, &topics, op);
                let got = match &resp {
                    Resp::Some(e) => format!(" {}:{}", e.len, e.hash),
                    Resp::List(v) if !v.is_empty() => format!(" {}", v.iter().map(|e| format!("{}:{}", e.len, e.hash)).collect::<Vec<_>>().join(",")),
                    _ => String::new(),
                };
                note(&acklog, format!("a {} {} {}{}\n", tid, idx, if matches!(resp, Resp::Err { .. }) { "err" } else { "ok" }, got));
                let returned = verif::stamp();
                results.lock().unwrap().push(ConcRes { thread: tid, idx, invoked, returned, resp });
                // a scheduling point between operations
                verif::yield_point("between_ops");
            }
            verif::thread_finish();
        }));
    }
    for h in handles {
        if h.join().is_err() {
            // the panic hook already reported and exited; unreachable in practice
        }
    }
    let yields = verif::sched_end();
    let mut r = results.lock().unwrap().clone();
    r.sort_by_key(|x| (x.invoked, x.thread, x.idx));
    Resp::Conc { results: r, yields }
}

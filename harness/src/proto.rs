//! Wire protocol between the driver and the child executor (one JSON value per line).
use serde::{Deserialize, Serialize};

#[derive(Clone, Debug, Serialize, Deserialize, PartialEq, Eq, Hash)]
pub enum Mode {
    Strict,
    Alo(u32),
}

#[derive(Clone, Debug, Serialize, Deserialize, PartialEq, Eq, Hash)]
pub enum Fsync {
    None,
    Ms(u64),
    Each,
}

/// How the instance is constructed (C14 exercises all of them; everything else uses Builder).
#[derive(Clone, Debug, Serialize, Deserialize, PartialEq, Eq, Hash)]
pub enum Ctor {
    /// builder().data_dir(dir).key(key)
    Builder,
    /// builder().key(key) with WALRUS_DATA_DIR=dir
    BuilderEnvDir,
    /// Walrus::new_for_key(key) with WALRUS_DATA_DIR=dir
    NewForKey,
    /// Walrus::with_consistency_for_key
    WithConsistencyForKey,
    /// Walrus::with_consistency_and_schedule_for_key
    WithConsistencyAndScheduleForKey,
    /// Walrus::new() with WALRUS_DATA_DIR=dir and WALRUS_INSTANCE_KEY=key
    NewEnvKey,
}

#[derive(Clone, Debug, Serialize, Deserialize, PartialEq, Eq, Hash)]
pub enum Op {
    /// Build an instance in slot `inst`. `dir` is relative to the child's base directory.
    Open { inst: u8, dir: String, key: Option<String>, mode: Mode, fsync: Fsync, ctor: Ctor },
    Close { inst: u8 },
    Append { inst: u8, t: u32, seq: u64, len: u64 },
    Batch { inst: u8, t: u32, seq0: u64, lens: Vec<u64> },
    /// batch of `n` aliased slices of one `len`-byte zero buffer (rejection cases; nothing that
    /// large is allocated n times)
    BatchAlias { inst: u8, t: u32, n: u64, len: u64 },
    /// single append of a `len`-byte zero buffer (oversize rejection)
    AppendZero { inst: u8, t: u32, len: u64 },
    ReadNext { inst: u8, t: u32, ck: bool },
    BatchRead { inst: u8, t: u32, budget: u64, ck: bool, off: Option<u64> },
    Count { inst: u8, t: u32 },
    CountAll { inst: u8 },
    MarkClean { inst: u8, t: u32 },
    MarkDirty { inst: u8, t: u32 },
    IsClean { inst: u8, t: u32 },
    Sleep { ms: u64 },
    /// recursive listing (relative path, size, is_dir) of the child's base directory
    Ls,
    /// H3 view (hooks build only)
    FileStates,
    /// E3: run thread programs under the H2 token scheduler
    Conc { inst: u8, threads: Vec<Vec<Op>>, schedule: Vec<u8> },
    /// Arm an H1 plan at run time (hooks build only): see exec.rs
    Plan { plan: String },
    /// number of H1 events seen so far
    IoCount,
    /// allocate `n` blocks cheaply: one 1-byte append to each of `n` fresh auxiliary topics
    /// (a topic's first append always gets a block of its own); these topics are never read
    Touch { inst: u8, n: u32 },
    /// leave the process through a normal `return` from main
    Exit,
    /// leave the process immediately with libc::_exit(0) (no destructors, no flush)
    ExitNow,
}

#[derive(Clone, Debug, Serialize, Deserialize, PartialEq, Eq, Hash)]
pub struct Ent {
    pub len: u64,
    pub hash: u64,
    /// first min(8,len) bytes, hex
    pub head: String,
}

#[derive(Clone, Debug, Serialize, Deserialize, PartialEq, Eq)]
pub struct FileState {
    pub path: String,
    pub locked: u16,
    pub checkpointed: u16,
    pub total: u16,
    pub fully: bool,
}

#[derive(Clone, Debug, Serialize, Deserialize, PartialEq, Eq)]
pub struct ConcRes {
    pub thread: usize,
    pub idx: usize,
    /// logical time stamps from the token scheduler
    pub invoked: u64,
    pub returned: u64,
    pub resp: Resp,
}

#[derive(Clone, Debug, Serialize, Deserialize, PartialEq, Eq)]
pub enum Resp {
    Ok,
    /// successful append / batch append: content hashes of the payloads handed to the engine
    Hashes(Vec<u64>),
    Err { kind: String, msg: String },
    None,
    Some(Ent),
    List(Vec<Ent>),
    Count(u64),
    Counts(Vec<(String, u64)>),
    Bool(bool),
    Ls(Vec<(String, u64, bool)>),
    FileStates(Vec<FileState>),
    Conc { results: Vec<ConcRes>, yields: u64 },
    Num(u64),
    /// the child panicked while executing the op (message, location); the child is gone
    Panic(String),
    /// the child died without answering (exit status / signal)
    Died(String),
    /// no answer within the watchdog limit; the child was killed
    Timeout,
    Unsupported(String),
}

impl Resp {
    pub fn short(&self) -> String {
        match self {
            Resp::List(v) => format!("List(n={}, bytes={})", v.len(), v.iter().map(|e| e.len).sum::<u64>()),
            Resp::Some(e) => format!("Some(len={})", e.len),
            Resp::Hashes(_) => "Ok".to_string(),
            other => {
                let s = format!("{:?}", other);
                if s.chars().count() > 200 {
                    format!("{}…", s.chars().take(200).collect::<String>())
                } else {
                    s
                }
            }
        }
    }
}

#[derive(Clone, Debug, Serialize, Deserialize)]
pub struct Init {
    pub base: String,
    pub fd_backend: bool,
    pub topics: Vec<String>,
    /// append "start"/"ack" lines to this file with one write(2) each
    pub ack_log: Option<String>,
}

//! Interpreter for E1 cases: abstract op -> concrete steps (aimed with the model), execution in
//! child processes, oracle checks after every step, feature classification, trace for replay.
use crate::absop::*;
use crate::child::*;
use crate::model::*;
use crate::proto::*;
use serde::{Deserialize, Serialize};
use std::collections::{BTreeMap, BTreeSet, HashMap};

#[derive(Clone, Debug, Serialize, Deserialize, PartialEq, Eq, Hash)]
pub enum Step {
    Do(Op),
    ReopenFresh,
    ReopenInProc,
    /// rename all WAL files of the instance directory to future timestamps, then fresh reopen
    ClockRegress,
    /// driver side: occupy / free the name of the marker store's temporary file
    MarkerOutage(bool),
}

#[derive(Clone, Debug, Default)]
pub struct RunOpts {
    /// known-finding trigger patterns that the interpreter must not emit (DESIGN §3.6)
    pub exclude: BTreeSet<String>,
    /// C02 relation 1: follow every peek with its consuming twin and compare
    pub peek_pairs: bool,
    /// C02 relation 2: drop all non-consuming reads while expanding
    pub erase_nonconsuming: bool,
    /// probe counts after every mutating op (C15)
    pub count_probes: bool,
    pub spawn: SpawnOpts,
    /// scratch on disk instead of tmpfs
    pub disk: bool,
    /// take Ls + FileStates observations at the end (C02 erasure)
    pub final_obs: bool,
    /// override backend (C16 differential)
    pub force_fd: Option<bool>,
    /// after every reopen ask topic_is_clean for every topic (C17)
    pub marker_probes: bool,
}

#[derive(Clone, Debug, Default, Serialize, Deserialize)]
pub struct Outcome {
    pub features: BTreeSet<String>,
    pub excluded: BTreeMap<String, u64>,
    pub steps: Vec<Step>,
    pub trace: Vec<String>,
    pub violation: Option<Violation>,
    /// harness problem (timeout, spawn failure): never a violation
    pub inconclusive: Option<String>,
    /// observation log for differential relations (non-consuming reads left out)
    pub obs: Vec<String>,
    /// every step with its full response (backend differential)
    pub full_obs: Vec<String>,
    /// the child process died while executing the last step (exit status text)
    pub died: Option<String>,
    pub n_steps: usize,
}

pub struct Run {
    pub cfg: Cfg,
    pub opts: RunOpts,
    pub scratch: Scratch,
    pub init: Init,
    pub child: Option<ChildProc>,
    pub model: InstModel,
    pub cache: HashMap<(u32, u64, u64), u64>,
    pub seq: u64,
    pub out: Outcome,
    pending_peek: Option<(Op, Resp)>,
    pub reopens: u32,
    /// a marker changed (append / mark) since the last reopen or settle sleep
    marker_changed: bool,
    /// a marker-file outage is in progress (Step::MarkerOutage(true) emitted, not yet ended)
    outage: bool,
    /// a marker changed while an outage was in progress
    changed_in_outage: bool,
}

/// exit status the H1 hook uses for a planned death
pub const DIE_STATUS: &str = "137";

pub const DATA_DIR: &str = "data";
pub const KEY: &str = "k";

impl Run {
    pub fn new(cfg: &Cfg, opts: RunOpts) -> Result<Run, String> {
        let scratch = Scratch::new(opts.disk);
        let pool = topic_pool();
        let topics: Vec<String> = cfg.topics.iter().map(|i| pool[*i as usize % pool.len()].clone()).collect();
        let init = Init { base: scratch.s(), fd_backend: opts.force_fd.unwrap_or(cfg.fd), topics: topics.clone(), ack_log: None };
        let mut r = Run {
            cfg: cfg.clone(),
            opts,
            scratch,
            init,
            child: None,
            model: InstModel::new(cfg.mode.clone(), topics.len()),
            cache: HashMap::new(),
            seq: 0,
            out: Outcome::default(),
            pending_peek: None,
            reopens: 0,
            marker_changed: false,
            outage: false,
            changed_in_outage: false,
        };
        r.spawn_and_open()?;
        Ok(r)
    }

    /// Like `new`, but a failing/dying first open is reported through `out` instead of an error
    /// (crash engine: the process may be planned to die inside `Walrus::new`).
    pub fn new_lazy(cfg: &Cfg, opts: RunOpts) -> Run {
        let scratch = Scratch::new(opts.disk);
        let pool = topic_pool();
        let topics: Vec<String> = cfg.topics.iter().map(|i| pool[*i as usize % pool.len()].clone()).collect();
        let init = Init { base: scratch.s(), fd_backend: opts.force_fd.unwrap_or(cfg.fd), topics: topics.clone(), ack_log: None };
        Run {
            cfg: cfg.clone(),
            opts,
            scratch,
            init,
            child: None,
            model: InstModel::new(cfg.mode.clone(), topics.len()),
            cache: HashMap::new(),
            seq: 0,
            out: Outcome::default(),
            pending_peek: None,
            reopens: 0,
            marker_changed: false,
            outage: false,
            changed_in_outage: false,
        }
    }

    /// spawn + open; Ok(resp of open)
    pub fn start(&mut self) -> Result<Resp, String> {
        let c = ChildProc::spawn(&self.init, &self.opts.spawn).map_err(|e| format!("spawn: {}", e))?;
        self.child = Some(c);
        let op = self.open_op();
        let r = self.child.as_mut().unwrap().call(&op);
        self.out.trace.push(format!("open -> {}", r.short()));
        if !matches!(r, Resp::Ok) {
            self.child = None;
        }
        Ok(r)
    }

    /// number of H1 foreground events so far (hooks build)
    pub fn io_count(&mut self) -> Option<u64> {
        match self.child.as_mut()?.call(&Op::IoCount) {
            Resp::Num(n) => Some(n),
            _ => None,
        }
    }

    /// Read everything every topic still delivers (consuming), without judging it.
    pub fn drain_collect(&mut self, use_batch: bool) -> Result<Vec<Vec<Ent>>, String> {
        let nt = self.model.topics.len();
        let mut all = Vec::new();
        for t in 0..nt as u32 {
            let mut got: Vec<Ent> = Vec::new();
            let mut empties = 0;
            let mut guard = 200_000usize;
            let mut flip = false;
            while empties < 2 && guard > 0 {
                guard -= 1;
                flip = !flip;
                let op = if use_batch && flip {
                    Op::BatchRead { inst: 0, t, budget: 4 << 20, ck: true, off: None }
                } else {
                    Op::ReadNext { inst: 0, t, ck: true }
                };
                let r = match self.child.as_mut() {
                    Some(c) => c.call(&op),
                    None => return Err("no child".into()),
                };
                match r {
                    Resp::Some(e) => {
                        got.push(e);
                        empties = 0;
                    }
                    Resp::None => empties += 1,
                    Resp::List(v) => {
                        if v.is_empty() {
                            empties += 1;
                        } else {
                            empties = 0;
                            got.extend(v);
                        }
                    }
                    other => {
                        self.out.trace.push(format!("drain {:?} -> {}", op, other.short()));
                        return Err(format!("{:?} -> {}", op, other.short()));
                    }
                }
            }
            self.out.trace.push(format!("drain topic {} -> {} entries", t, got.len()));
            all.push(got);
        }
        Ok(all)
    }

    pub fn open_op(&self) -> Op {
        Op::Open {
            inst: 0,
            dir: DATA_DIR.to_string(),
            key: Some(KEY.to_string()),
            mode: self.cfg.mode.clone(),
            fsync: self.cfg.fsync.clone(),
            ctor: Ctor::Builder,
        }
    }

    pub fn inst_dir(&self) -> std::path::PathBuf {
        self.scratch.path.join(DATA_DIR).join(KEY)
    }

    fn spawn_and_open(&mut self) -> Result<(), String> {
        let c = ChildProc::spawn(&self.init, &self.opts.spawn).map_err(|e| format!("spawn: {}", e))?;
        self.child = Some(c);
        let op = self.open_op();
        let r = self.child.as_mut().unwrap().call(&op);
        self.out.trace.push(format!("open -> {}", r.short()));
        match r {
            Resp::Ok => Ok(()),
            Resp::Timeout => {
                self.out.inconclusive = Some("open timed out".into());
                Err("open timed out".into())
            }
            other => {
                self.out.violation = Some(Violation { oracle: Oracle::Crash, msg: format!("opening the instance failed: {}", other.short()) });
                Err("open failed".into())
            }
        }
    }

    fn nt(&self) -> usize {
        self.model.topics.len()
    }
    fn tix(&self, t: u16) -> u32 {
        idx(t, self.nt()) as u32
    }
    fn feat(&mut self, f: &str) {
        self.out.features.insert(f.to_string());
    }
    fn excluded(&mut self, id: &str) {
        *self.out.excluded.entry(id.to_string()).or_insert(0) += 1;
    }

    pub fn size_to_len(&self, t: u32, s: &Size) -> u64 {
        match s {
            Size::Empty => 0,
            Size::Tiny(i) => {
                let k = idx(*i, 300 + 3 * TINY_SPECIALS.len());
                if k < 3 * TINY_SPECIALS.len() {
                    TINY_SPECIALS[k / 3]
                } else {
                    (k - 3 * TINY_SPECIALS.len()) as u64
                }
            }
            Size::Small(n) | Size::Medium(n) | Size::Large(n) | Size::Multi(n) => *n as u64,
            Size::Fit(slack) => self.model.topics[t as usize].fit_len(*slack as i64),
        }
    }

    pub fn budget_to_u64(&self, t: u32, b: &Budget) -> u64 {
        let tm = &self.model.topics[t as usize];
        let adj = |base: u64, d: i8| -> u64 {
            if d >= 0 {
                base.saturating_add(d as u64)
            } else {
                base.saturating_sub((-d) as u64)
            }
        };
        // C02 erasure runs (B and C) must expand to the same consuming operations although only B's
        // peeks narrow the model's set of possible cursors after an AtLeastOnce restart: there the
        // budgets are aimed at the newest appended entries, which do not depend on the cursor
        let stable = self.model.alo_restarted && self.opts.final_obs;
        let n_app = tm.appended.len();
        let nl = |k: usize| -> Option<u64> {
            if stable {
                n_app.checked_sub(1 + k).and_then(|i| tm.appended.get(i)).map(|e| e.len)
            } else {
                tm.next_len(k)
            }
        };
        match b {
            Budget::Zero => 0,
            Budget::One => 1,
            Budget::NextLen(d) => adj(nl(0).unwrap_or(0), *d),
            Budget::SumNext(k, d) => {
                let mut s = 0u64;
                for i in 0..*k as usize {
                    s += nl(i).unwrap_or(0);
                }
                adj(s, *d)
            }
            Budget::Bytes(n) => *n as u64,
            Budget::Max => u64::MAX,
        }
    }

    fn off_to_u64(&self, t: u32, o: &Off) -> u64 {
        let tm = &self.model.topics[t as usize];
        let n = tm.appended.len();
        let boundary = |k: usize| -> u64 { tm.appended.iter().take(k).map(|e| HDR + e.len).sum() };
        match o {
            Off::Zero => 0,
            Off::Boundary(k) => boundary(idx(*k, n + 1)),
            Off::InPayload(k, d) => {
                if n == 0 {
                    return 0;
                }
                let k = idx(*k, n);
                let len = tm.appended[k].len;
                boundary(k) + HDR + if len == 0 { 0 } else { (*d as u64) % len }
            }
            Off::InHeader(k, d) => {
                if n == 0 {
                    return 0;
                }
                boundary(idx(*k, n)) + (*d as u64)
            }
            Off::End => boundary(n),
            Off::Beyond(x) => boundary(n) + *x as u64,
            Off::Any(x) => *x,
        }
    }

    /// abstract -> concrete, aimed with the current model
    pub fn expand(&mut self, op: &AbsOp) -> Vec<Step> {
        let mut v = Vec::new();
        match op {
            AbsOp::Append { t, size } => {
                let t = self.tix(*t);
                let len = self.size_to_len(t, size);
                if len > 10 * MIB - HDR && self.opts.exclude.contains("multi-unit-block") {
                    self.excluded("multi-unit-block");
                    return v;
                }
                v.push(Step::Do(Op::Append { inst: 0, t, seq: self.next_seq(1), len }));
            }
            AbsOp::Batch { t, sizes } => {
                let t = self.tix(*t);
                // Fit is resolved against the mirror as the batch is laid out
                let mut tm = self.model.topics[t as usize].clone();
                let mut lens = Vec::new();
                for s in sizes {
                    let len = match s {
                        Size::Fit(slack) => tm.fit_len(*slack as i64),
                        other => self.size_to_len(t, other),
                    };
                    if len > 10 * MIB - HDR && self.opts.exclude.contains("multi-unit-block") {
                        self.excluded("multi-unit-block");
                        continue;
                    }
                    tm.mirror_append(len);
                    lens.push(len);
                }
                if lens.is_empty() {
                    return v;
                }
                let seq0 = self.next_seq(lens.len() as u64);
                v.push(Step::Do(Op::Batch { inst: 0, t, seq0, lens }));
            }
            AbsOp::BatchMany { t, n, len } => {
                let t = self.tix(*t);
                let n = (*n).clamp(1, 2000) as usize;
                let seq0 = self.next_seq(n as u64);
                v.push(Step::Do(Op::Batch { inst: 0, t, seq0, lens: vec![*len as u64; n] }));
            }
            AbsOp::ReadNext { t, ck } => {
                let t = self.tix(*t);
                if !*ck {
                    if self.opts.erase_nonconsuming {
                        return v;
                    }
                    v.push(Step::Do(Op::ReadNext { inst: 0, t, ck: false }));
                    if self.opts.peek_pairs {
                        v.push(Step::Do(Op::ReadNext { inst: 0, t, ck: true }));
                    }
                } else {
                    v.push(Step::Do(Op::ReadNext { inst: 0, t, ck: true }));
                }
            }
            AbsOp::BatchRead { t, budget, ck } => {
                let t = self.tix(*t);
                let b = self.budget_to_u64(t, budget);
                if !*ck {
                    if self.opts.erase_nonconsuming {
                        return v;
                    }
                    v.push(Step::Do(Op::BatchRead { inst: 0, t, budget: b, ck: false, off: None }));
                    if self.opts.peek_pairs {
                        v.push(Step::Do(Op::BatchRead { inst: 0, t, budget: b, ck: true, off: None }));
                    }
                } else {
                    v.push(Step::Do(Op::BatchRead { inst: 0, t, budget: b, ck: true, off: None }));
                }
            }
            AbsOp::Stateless { t, budget, ck, off } => {
                if self.opts.erase_nonconsuming {
                    return v;
                }
                let t = self.tix(*t);
                let b = self.budget_to_u64(t, budget);
                let o = self.off_to_u64(t, off);
                if *ck && !matches!(self.cfg.mode, Mode::Strict) && self.opts.exclude.contains("stateless-ck-alo") {
                    self.excluded("stateless-ck-alo");
                    v.push(Step::Do(Op::BatchRead { inst: 0, t, budget: b, ck: false, off: Some(o) }));
                } else {
                    v.push(Step::Do(Op::BatchRead { inst: 0, t, budget: b, ck: *ck, off: Some(o) }));
                }
            }
            AbsOp::Count { t } => {
                let t = self.tix(*t);
                v.push(Step::Do(Op::Count { inst: 0, t }));
            }
            AbsOp::CountAll => v.push(Step::Do(Op::CountAll { inst: 0 })),
            AbsOp::MarkerOutage { on } => {
                if *on != self.outage {
                    self.outage = *on;
                    v.push(Step::MarkerOutage(*on));
                }
            }
            AbsOp::Reopen { .. } | AbsOp::ClockRegress => {
                if self.outage {
                    // the outage is transient: it is over before the instance is shut down
                    self.outage = false;
                    v.push(Step::MarkerOutage(false));
                }
                if self.marker_changed && self.opts.exclude.contains("marker-settle-before-reopen") {
                    // known finding: a marker change is lost when the instance goes away inside
                    // the persister's coalescing window; give it 50x that window
                    self.excluded("marker-settle-before-reopen");
                    v.push(Step::Do(Op::Sleep { ms: 250 }));
                }
                v.push(match op {
                    AbsOp::Reopen { fresh: true } => Step::ReopenFresh,
                    AbsOp::Reopen { fresh: false } => Step::ReopenInProc,
                    _ => Step::ClockRegress,
                });
                if self.opts.marker_probes {
                    for t in 0..self.nt() as u32 {
                        v.push(Step::Do(Op::IsClean { inst: 0, t }));
                    }
                }
            }
            AbsOp::Reject { t, kind } => {
                let t = self.tix(*t);
                match kind {
                    Reject::TooManyEntries => v.push(Step::Do(Op::BatchAlias { inst: 0, t, n: 2001, len: 1 })),
                    Reject::TooManyBytes => v.push(Step::Do(Op::BatchAlias { inst: 0, t, n: 11, len: 1 << 30 })),
                    Reject::OversizeAppend => {
                        if self.opts.exclude.contains("oversize-seals-block") {
                            self.excluded("oversize-seals-block");
                        } else {
                            v.push(Step::Do(Op::AppendZero { inst: 0, t, len: (1 << 30) + 1 }))
                        }
                    }
                    Reject::OversizeInBatch => {
                        if self.opts.exclude.contains("oversize-seals-block") {
                            self.excluded("oversize-seals-block");
                        } else {
                            v.push(Step::Do(Op::BatchAlias { inst: 0, t, n: 2, len: (1 << 30) + 1 }))
                        }
                    }
                    Reject::EmptyBatch => v.push(Step::Do(Op::Batch { inst: 0, t, seq0: self.seq, lens: vec![] })),
                }
            }
            AbsOp::MarkClean { t } => v.push(Step::Do(Op::MarkClean { inst: 0, t: self.tix(*t) })),
            AbsOp::MarkDirty { t } => v.push(Step::Do(Op::MarkDirty { inst: 0, t: self.tix(*t) })),
            AbsOp::IsClean { t } => v.push(Step::Do(Op::IsClean { inst: 0, t: self.tix(*t) })),
            AbsOp::Sleep { ms } => v.push(Step::Do(Op::Sleep { ms: *ms as u64 })),
            AbsOp::Touch { n } => v.push(Step::Do(Op::Touch { inst: 0, n: *n as u32 })),
            AbsOp::Fill { t, n } => {
                let t = self.tix(*t);
                for _ in 0..*n {
                    v.push(Step::Do(Op::Append { inst: 0, t, seq: self.next_seq(1), len: 5 * MIB + 300 * 1024 }));
                }
            }
        }
        v
    }

    fn next_seq(&mut self, n: u64) -> u64 {
        let s = self.seq;
        self.seq += n;
        s
    }

    fn classify_before(&mut self, op: &Op) {
        match op {
            Op::Touch { n, .. } if *n >= 90 => self.feat("file_end_approached"),
            Op::BatchRead { t, budget, ck, off: None, .. } => {
                let tm = &self.model.topics[*t as usize];
                let in_sealed = tm.cursor_in_sealed();
                let tail = tm.tail_has_entries();
                let next = tm.next_len(0);
                let avail = tm.avail_min();
                let c = tm.consumed_max();
                let at_block_start = c > 0 && tm.entry_block.get(c).map(|b| tm.entry_block[c - 1] != *b).unwrap_or(false);
                let mut fs: Vec<&str> = Vec::new();
                if *ck && in_sealed && tail {
                    fs.push("batchread_in_sealed_with_tail");
                }
                if in_sealed {
                    fs.push("batchread_cursor_sealed");
                }
                if let Some(n) = next {
                    if *budget < n {
                        fs.push("budget_lt_next");
                    }
                    if n == 0 {
                        fs.push("zero_len_via_batch");
                    }
                }
                if avail >= 2000 {
                    fs.push("cap_reachable");
                }
                if at_block_start && avail > 0 {
                    fs.push("cursor_at_block_end_with_data");
                }
                if *budget == u64::MAX {
                    fs.push("budget_max");
                }
                if *budget == 0 {
                    fs.push("budget_zero");
                }
                if !*ck && c > 0 && tm.entry_block.get(c - 1).is_some() && (tm.entry_block.get(c).map(|b| tm.entry_block[c - 1] != *b).unwrap_or(tm.rotations > 0 && avail == 0)) {
                    fs.push("peek_at_block_end");
                }
                for f in fs {
                    self.feat(f);
                }
            }
            Op::ReadNext { t, .. } => {
                let tm = &self.model.topics[*t as usize];
                let c = tm.consumed_max();
                let crossing = c > 0 && tm.entry_block.get(c).map(|b| tm.entry_block[c - 1] != *b).unwrap_or(false);
                let empty = tm.avail_min() == 0;
                let live = tm.has_writer;
                if crossing {
                    self.feat("read_next_crosses_block");
                }
                if empty && live {
                    self.feat("empty_poll_live_writer");
                }
            }
            _ => {}
        }
    }

    /// Execute one concrete step and check it against the model.
    pub fn apply(&mut self, step: &Step) -> Check {
        self.out.steps.push(step.clone());
        self.out.n_steps += 1;
        match step {
            Step::Do(op) => {
                self.classify_before(op);
                let resp = match self.child.as_mut() {
                    Some(c) => c.call(op),
                    None => return viol(Oracle::Crash, "no child".into()),
                };
                self.out.trace.push(format!("{:?} -> {}", op, resp.short()));
                if matches!(resp, Resp::Timeout) {
                    self.out.inconclusive = Some(format!("watchdog: no answer to {:?}", op));
                    return viol(Oracle::Crash, "timeout (inconclusive)".into());
                }
                if let Resp::Panic(m) = &resp {
                    self.child = None;
                    return viol(Oracle::Crash, format!("engine panicked during {:?}: {}", op, m));
                }
                if let Resp::Died(m) = &resp {
                    self.child = None;
                    self.out.died = Some(m.clone());
                    return viol(Oracle::Crash, format!("process died during {:?}: {}", op, m));
                }
                {
                    let shown = match &resp {
                        Resp::Err { kind, .. } => format!("Err({})", kind),
                        other => format!("{:?}", other),
                    };
                    self.out.full_obs.push(format!("{:?} => {}", op, shown));
                }
                let is_peek_like = matches!(op, Op::ReadNext { ck: false, .. } | Op::BatchRead { ck: false, .. } | Op::BatchRead { off: Some(_), .. });
                if !is_peek_like {
                    // errors are compared by kind (messages may name backend-specific details)
                    let shown = match &resp {
                        Resp::Err { kind, .. } => format!("Err({})", kind),
                        other => format!("{:?}", other),
                    };
                    self.out.obs.push(format!("{:?} => {}", op, shown));
                }
                if self.reopens > 0 {
                    if let (Op::ReadNext { ck: true, .. } | Op::BatchRead { ck: true, off: None, .. }, Resp::Some(_) | Resp::List(_)) = (op, &resp) {
                        if !matches!(&resp, Resp::List(v) if v.is_empty()) {
                            self.feat("data_after_reopen");
                        }
                    }
                }
                let pending = self.pending_peek.take();
                self.check_op(op, &resp, pending)
            }
            Step::ReopenFresh => self.reopen(true, false),
            Step::ReopenInProc => self.reopen(false, false),
            Step::ClockRegress => self.reopen(true, true),
            Step::MarkerOutage(on) => {
                let p = self.inst_dir().join("topic_clean_index.db.tmp");
                if *on {
                    // mkdir only: it fails while a persist has its temporary file in place, and
                    // nothing is ever unlinked under a running persist (a directory must never
                    // be what the store renames into place)
                    if std::fs::create_dir(&p).is_ok() {
                        self.feat("marker_outage");
                    } else {
                        self.changed_in_outage = false;
                        self.outage = false;
                    }
                } else {
                    let _ = std::fs::remove_dir(&p);
                    if self.changed_in_outage {
                        self.feat("marker_changed_during_outage");
                        self.changed_in_outage = false;
                    }
                }
                self.out.trace.push(format!("marker outage {}", if *on { "begins" } else { "ends" }));
                Ok(())
            }
        }
    }

    fn reopen(&mut self, fresh: bool, clock: bool) -> Check {
        self.pending_peek = None;
        self.reopens += 1;
        if self.marker_changed {
            self.feat("reopen_after_marker_change");
            self.marker_changed = false;
        }
        if fresh {
            if let Some(c) = self.child.take() {
                let code = c.exit(false);
                self.out.trace.push(format!("exit -> {:?}", code));
                if code != Some(0) {
                    return viol(Oracle::Crash, format!("clean shutdown ended with status {:?}", code));
                }
            }
            if clock {
                // earlier lifetimes' files get names in the future: the next lifetime's clock is "behind"
                let dir = self.inst_dir();
                let mut names: Vec<String> = std::fs::read_dir(&dir)
                    .map(|rd| rd.filter_map(|e| e.ok()).map(|e| e.file_name().to_string_lossy().into_owned()).collect())
                    .unwrap_or_default();
                names.retain(|n| !n.is_empty() && n.chars().all(|c| c.is_ascii_digit()));
                names.sort();
                // keep relative order; push far ahead (≈ +3 years per regression)
                for n in names.iter().rev() {
                    if let Ok(ms) = n.parse::<u64>() {
                        let _ = std::fs::rename(dir.join(n), dir.join(format!("{}", ms + 100_000_000_000)));
                    }
                }
                self.feat("clock_regression");
            }
            if let Err(e) = self.spawn_and_open() {
                if self.out.violation.is_some() {
                    let v = self.out.violation.take().unwrap();
                    return Err(v);
                }
                return viol(Oracle::Crash, e);
            }
        } else {
            let c = self.child.as_mut().unwrap();
            let r1 = c.call(&Op::Close { inst: 0 });
            let op = Op::Open {
                inst: 0,
                dir: DATA_DIR.to_string(),
                key: Some(KEY.to_string()),
                mode: self.cfg.mode.clone(),
                fsync: self.cfg.fsync.clone(),
                ctor: Ctor::Builder,
            };
            let r2 = c.call(&op);
            self.out.trace.push(format!("reopen in-process -> {} / {}", r1.short(), r2.short()));
            if r2 != Resp::Ok {
                if matches!(r2, Resp::Timeout) {
                    self.out.inconclusive = Some("reopen timed out".into());
                }
                return viol(Oracle::Crash, format!("in-process reopen failed: {}", r2.short()));
            }
        }
        // model: restart is invisible in Strict; AtLeastOnce may move the cursor back, never forward
        let alo = !matches!(self.cfg.mode, Mode::Strict);
        let mut any_tail = false;
        let mut any_multi = false;
        let mut any_empty_block = false;
        for tm in self.model.topics.iter_mut() {
            if tm.has_writer && tm.consumed_max() > 0 && tm.entry_block.get(tm.consumed_max().saturating_sub(1)).map(|b| *b == tm.tail_ord).unwrap_or(false) {
                any_tail = true;
            }
            if tm.multi_unit_blocks > 0 {
                any_multi = true;
            }
            if tm.empty_blocks > 0 {
                any_empty_block = true;
            }
            tm.mirror_reopen();
            if alo {
                let hi = tm.consumed_max();
                tm.cursors = (0..=hi).collect();
            }
        }
        if alo {
            self.model.alo_restarted = true;
        }
        self.feat(if fresh { "reopen_fresh" } else { "reopen_inproc" });
        if any_tail {
            self.feat("reopen_with_tail_cursor");
        }
        if any_multi {
            self.feat("reopen_with_multi_unit_block");
        }
        if any_empty_block {
            self.feat("reopen_with_empty_block");
        }
        if self.reopens >= 2 {
            self.feat("reopen_twice");
        }
        Ok(())
    }

    fn check_op(&mut self, op: &Op, resp: &Resp, pending_peek: Option<(Op, Resp)>) -> Check {
        match op {
            Op::Append { t, seq, len, .. } => match resp {
                Resp::Hashes(hs) if hs.len() == 1 => {
                    if *len > 65_536 {
                        self.cache.insert((*t, *seq, *len), hs[0]);
                    }
                    let id = ent_id(*t, *seq, *len, &mut self.cache);
                    if self.model.on_append_ok(*t, id) {
                        self.marker_changed = true;
                        self.changed_in_outage |= self.outage;
                    }
                    let (rot, mu) = {
                        let tm = &self.model.topics[*t as usize];
                        (tm.rotations, tm.multi_unit_blocks)
                    };
                    if rot > 0 {
                        self.feat("rotation");
                    }
                    if mu > 0 {
                        self.feat("multi_unit_block");
                    }
                    if *len == 0 {
                        self.feat("zero_len_entry");
                    }
                    Ok(())
                }
                Resp::Err { .. } => {
                    self.feat("append_err");
                    self.model.topics[*t as usize].clean_unknown = true;
                    Ok(())
                }
                other => viol(Oracle::Crash, format!("append: {}", other.short())),
            },
            Op::Batch { t, seq0, lens, .. } => match resp {
                Resp::Hashes(hs) if lens.is_empty() && hs.is_empty() => {
                    // an empty batch appends nothing; whether it counts as "an append" for the
                    // dirty marker is not specified
                    self.model.topics[*t as usize].clean_unknown = true;
                    Ok(())
                }
                Resp::Hashes(hs) if hs.len() == lens.len() => {
                    let before = self.model.topics[*t as usize].rotations;
                    for (i, l) in lens.iter().enumerate() {
                        // small payloads are re-derived by the driver itself (independent check of
                        // the child's generator); large ones take the child's hash
                        if *l > 65_536 {
                            self.cache.insert((*t, seq0 + i as u64, *l), hs[i]);
                        }
                        let id = ent_id(*t, seq0 + i as u64, *l, &mut self.cache);
                        if self.model.on_append_ok(*t, id) {
                            self.marker_changed = true;
                        self.changed_in_outage |= self.outage;
                        }
                        if *l == 0 {
                            self.feat("zero_len_entry");
                        }
                    }
                    let (rot, mu) = {
                        let tm = &self.model.topics[*t as usize];
                        (tm.rotations, tm.multi_unit_blocks)
                    };
                    if rot > before {
                        self.feat("batch_spans_rotation");
                        self.feat("rotation");
                    }
                    if mu > 0 {
                        self.feat("multi_unit_block");
                    }
                    if lens.len() >= 1990 {
                        self.feat("batch_near_cap");
                    }
                    Ok(())
                }
                Resp::Err { .. } => {
                    self.feat("batch_err");
                    self.model.topics[*t as usize].clean_unknown = true;
                    Ok(())
                }
                other => viol(Oracle::Crash, format!("batch append: {}", other.short())),
            },
            Op::BatchAlias { n, len, t, .. } => match resp {
                Resp::Err { .. } => {
                    self.model.topics[*t as usize].clean_unknown = true;
                    self.feat("rejected_batch");
                    Ok(())
                }
                Resp::Ok => viol(Oracle::Reject, format!("batch of {} x {} bytes was accepted", n, len)),
                other => viol(Oracle::Crash, format!("oversized batch: {}", other.short())),
            },
            Op::AppendZero { len, t, .. } => match resp {
                Resp::Err { .. } => {
                    self.model.topics[*t as usize].clean_unknown = true;
                    self.feat("rejected_append");
                    Ok(())
                }
                Resp::Ok => viol(Oracle::Reject, format!("append of {} bytes was accepted", len)),
                other => viol(Oracle::Crash, format!("oversized append: {}", other.short())),
            },
            Op::ReadNext { t, ck, .. } => {
                let r = self.model.check_read_next(*t, *ck, resp);
                if r.is_ok() {
                    if *ck {
                        if let Some((Op::ReadNext { t: pt, ck: false, .. }, presp)) = &pending_peek {
                            if pt == t && presp != resp {
                                return viol(
                                    Oracle::Peek,
                                    format!("peek read_next(topic {}) returned {} but the immediately following consuming read returned {}", t, presp.short(), resp.short()),
                                );
                            }
                            self.feat("peek_pair_checked");
                        }
                        self.feat("read_next_used");
                    } else {
                        self.pending_peek = Some((op.clone(), resp.clone()));
                    }
                }
                r
            }
            Op::BatchRead { t, budget, ck, off: None, .. } => {
                let r = self.model.check_batch_read(*t, *budget, *ck, resp);
                if r.is_ok() {
                    if let Resp::List(v) = resp {
                        if v.len() == 2000 {
                            self.feat("cap_hit");
                        }
                        if v.iter().any(|e| e.len == 0) {
                            self.feat("zero_len_returned_by_batch");
                        }
                    }
                    if *ck {
                        if let Some((Op::BatchRead { t: pt, budget: pb, ck: false, off: None, .. }, presp)) = &pending_peek {
                            if pt == t && pb == budget && presp != resp {
                                return viol(
                                    Oracle::Peek,
                                    format!(
                                        "peek batch_read(topic {}, budget {}) returned {} but the immediately following consuming read returned {}",
                                        t,
                                        budget,
                                        presp.short(),
                                        resp.short()
                                    ),
                                );
                            }
                            self.feat("peek_pair_checked");
                        }
                        self.feat("batch_read_used");
                    } else {
                        self.pending_peek = Some((op.clone(), resp.clone()));
                    }
                }
                r
            }
            Op::BatchRead { t, budget, ck, off: Some(o), .. } => {
                if *ck {
                    self.feat("stateless_ck_true");
                    if !matches!(self.cfg.mode, Mode::Strict) {
                        self.feat("stateless_ck_true_alo");
                    }
                }
                self.feat("stateless_read");
                self.model.check_stateless(*t, *budget, *o, resp)
            }
            Op::Count { t, .. } => {
                self.feat("count_probe");
                self.model.check_count(*t, resp)
            }
            Op::CountAll { .. } => match resp {
                Resp::Counts(v) => {
                    let topics = self.init.topics.clone();
                    for (name, c) in v {
                        match topics.iter().position(|n| n == name) {
                            Some(ti) => self.model.check_count(ti as u32, &Resp::Count(*c))?,
                            None => {
                                // auxiliary one-entry topics of Op::Touch are never read
                                if *c != 0 && !name.starts_with("__aux_") {
                                    return viol(Oracle::Count, format!("count map has unknown topic {:?} = {}", name, c));
                                }
                            }
                        }
                    }
                    // topics missing from the map count as 0
                    for (ti, name) in topics.iter().enumerate() {
                        if !v.iter().any(|(n, _)| n == name) {
                            self.model.check_count(ti as u32, &Resp::Count(0))?;
                        }
                    }
                    Ok(())
                }
                other => viol(Oracle::Crash, format!("count_all: {}", other.short())),
            },
            Op::MarkClean { t, .. } => {
                if !self.model.topics[*t as usize].clean || self.model.topics[*t as usize].clean_unknown {
                    self.marker_changed = true;
                        self.changed_in_outage |= self.outage;
                }
                self.model.topics[*t as usize].clean = true;
                self.model.topics[*t as usize].clean_unknown = false;
                Ok(())
            }
            Op::MarkDirty { t, .. } => {
                if self.model.topics[*t as usize].clean || self.model.topics[*t as usize].clean_unknown {
                    self.marker_changed = true;
                        self.changed_in_outage |= self.outage;
                }
                self.model.topics[*t as usize].clean = false;
                self.model.topics[*t as usize].clean_unknown = false;
                Ok(())
            }
            Op::Sleep { ms } => {
                if *ms >= 250 {
                    self.marker_changed = false;
                }
                Ok(())
            }
            Op::IsClean { t, .. } => match resp {
                Resp::Bool(b) => {
                    if self.model.topics[*t as usize].clean_unknown {
                        self.model.topics[*t as usize].clean = *b;
                        self.model.topics[*t as usize].clean_unknown = false;
                    }
                    if *b != self.model.topics[*t as usize].clean {
                        return viol(Oracle::Marker, format!("topic {} reports clean={} but the model says clean={}", t, b, self.model.topics[*t as usize].clean));
                    }
                    Ok(())
                }
                other => viol(Oracle::Crash, format!("is_clean: {}", other.short())),
            },
            _ => Ok(()),
        }
    }

    /// generated drain: alternate the given read choices until every topic is exhausted and
    /// confirmed empty twice
    pub fn drain(&mut self, choices: &[DrainStep]) -> Check {
        let nt = self.nt();
        let mut k = 0usize;
        for t in 0..nt as u32 {
            self.drain_one(t, choices, &mut k)?;
        }
        Ok(())
    }

    /// drain one topic (see `drain`)
    pub fn drain_one(&mut self, t: u32, choices: &[DrainStep], k: &mut usize) -> Check {
        {
            let mut empties = 0;
            let mut guard = self.model.topics[t as usize].appended.len() * 2 + 50;
            while empties < 2 {
                if guard == 0 {
                    return viol(Oracle::Progress, format!("drain of topic {} does not terminate", t));
                }
                guard -= 1;
                let mut ch = if choices.is_empty() { DrainStep::Next } else { choices[*k % choices.len()].clone() };
                *k += 1;
                // bulk of a long backlog is drained with unbounded reads (cost), the generated
                // choices take over for the last 200 entries
                if self.model.topics[t as usize].avail_min() > 200 {
                    ch = DrainStep::Batch(Budget::Max);
                }
                let before = self.model.topics[t as usize].cursors.clone();
                let op = match ch {
                    DrainStep::Next => Op::ReadNext { inst: 0, t, ck: true },
                    DrainStep::Batch(b) => Op::BatchRead { inst: 0, t, budget: self.budget_to_u64(t, &b), ck: true, off: None },
                };
                self.apply(&Step::Do(op))?;
                let tm = &self.model.topics[t as usize];
                if tm.cursors == before && tm.consumed_min() >= tm.appended.len() {
                    empties += 1;
                }
            }
            // final: everything delivered
            let tm = &self.model.topics[t as usize];
            if tm.consumed_min() != tm.appended.len() {
                return viol(Oracle::Content, format!("after the drain topic {} has cursor {:?} of {}", t, tm.cursors, tm.appended.len()));
            }
        }
        Ok(())
    }

    pub fn finish(mut self) -> Outcome {
        if self.opts.final_obs {
            if let Some(c) = self.child.as_mut() {
                if let Resp::Ls(v) = c.call(&Op::Ls) {
                    // WAL files only: cursor/marker files (and their .tmp stages) are written
                    // asynchronously and their presence at this instant is a matter of timing
                    let files = v
                        .iter()
                        .filter(|(n, _, d)| !d && n.rsplit('/').next().map(|b| !b.is_empty() && b.bytes().all(|c| c.is_ascii_digit())).unwrap_or(false))
                        .count();
                    self.out.obs.push(format!("wal_files={}", files));
                }
                let fs = c.call(&Op::FileStates);
                if let Resp::FileStates(v) = fs {
                    // paths contain wall-clock names: compare the multiset of counters only
                    let mut w: Vec<(u16, u16, u16, bool)> = v.iter().map(|f| (f.locked, f.checkpointed, f.total, f.fully)).collect();
                    w.sort();
                    self.out.obs.push(format!("file_states={:?}", w));
                }
            }
        }
        if let Some(c) = self.child.take() {
            let _ = c.exit(true);
        }
        self.out
    }
}

/// Run a whole abstract case: ops, then the drain. Non-enabled oracle failures end the case as
/// "diverged" (feature) rather than as a violation of this property.
pub fn run_case(case: &Case, opts: RunOpts, enabled: &[Oracle], with_drain: bool) -> Outcome {
    let mut run = match Run::new(&case.cfg, opts) {
        Ok(r) => r,
        Err(e) => {
            let mut o = Outcome::default();
            o.inconclusive = Some(e);
            return o;
        }
    };
    let mut res: Check = Ok(());
    'outer: for aop in &case.ops {
        let steps = run.expand(aop);
        for s in steps {
            res = run.apply(&s);
            if res.is_err() {
                break 'outer;
            }
            if run.opts.count_probes {
                if let Step::Do(Op::Append { t, .. } | Op::Batch { t, .. } | Op::ReadNext { t, .. } | Op::BatchRead { t, .. } | Op::BatchAlias { t, .. } | Op::AppendZero { t, .. }) = &s {
                    res = run.apply(&Step::Do(Op::Count { inst: 0, t: *t }));
                    if res.is_err() {
                        break 'outer;
                    }
                }
            }
        }
    }
    if res.is_ok() && with_drain {
        res = run.drain(&case.drain);
    }
    let inconclusive = run.out.inconclusive.clone();
    let mut out = run.finish();
    if let Err(v) = res {
        if inconclusive.is_some() {
            out.inconclusive = inconclusive;
        } else if enabled.contains(&v.oracle) {
            out.violation = Some(v);
        } else {
            out.features.insert(format!("diverged_{:?}", v.oracle));
            out.trace.push(format!("(diverged on an oracle of another property: {:?}: {})", v.oracle, v.msg));
        }
    }
    out
}

/// Replay concrete steps (no proptest, no expansion).
pub fn replay_steps(cfg: &Cfg, steps: &[Step], opts: RunOpts, enabled: &[Oracle]) -> Outcome {
    let mut run = match Run::new(cfg, opts) {
        Ok(r) => r,
        Err(e) => {
            let mut o = Outcome::default();
            o.inconclusive = Some(e);
            return o;
        }
    };
    let mut res: Check = Ok(());
    for s in steps {
        res = run.apply(s);
        if res.is_err() {
            break;
        }
    }
    let inconclusive = run.out.inconclusive.clone();
    let mut out = run.finish();
    if let Err(v) = res {
        if inconclusive.is_some() {
            out.inconclusive = inconclusive;
        } else if enabled.contains(&v.oracle) {
            out.violation = Some(v);
        } else {
            out.features.insert(format!("diverged_{:?}", v.oracle));
        }
    }
    out
}

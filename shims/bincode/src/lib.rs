//! Stand-in for `bincode` 1.3 (`serialize` / `deserialize` with the default options:
//! little-endian fixed-width integers, u64 length prefixes, u32 enum variant tags,
//! u8 option/bool tags, trailing bytes allowed, no size limit).
use serde::de::{self, DeserializeSeed, EnumAccess, IntoDeserializer, MapAccess, SeqAccess, VariantAccess, Visitor};
use serde::ser::{self, Serialize};
use std::fmt;

#[derive(Debug)]
pub enum ErrorKind {
    Io(std::io::Error),
    InvalidUtf8Encoding(std::str::Utf8Error),
    InvalidBoolEncoding(u8),
    InvalidCharEncoding,
    InvalidTagEncoding(usize),
    DeserializeAnyNotSupported,
    SizeLimit,
    SequenceMustHaveLength,
    Custom(String),
}
pub type Error = Box<ErrorKind>;
pub type Result<T> = std::result::Result<T, Error>;

impl fmt::Display for ErrorKind {
    fn fmt(&self, f: &mut fmt::Formatter<'_>) -> fmt::Result {
        match self {
            ErrorKind::Io(e) => write!(f, "io error: {}", e),
            ErrorKind::InvalidUtf8Encoding(e) => write!(f, "string is not valid utf8: {}", e),
            ErrorKind::InvalidBoolEncoding(b) => write!(f, "invalid u8 while decoding bool, expected 0 or 1, found {}", b),
            ErrorKind::InvalidCharEncoding => write!(f, "char is not valid"),
            ErrorKind::InvalidTagEncoding(t) => write!(f, "tag for enum is not valid, found {}", t),
            ErrorKind::DeserializeAnyNotSupported => write!(f, "Bincode does not support the serde::Deserializer::deserialize_any method"),
            ErrorKind::SizeLimit => write!(f, "the size limit has been reached"),
            ErrorKind::SequenceMustHaveLength => write!(f, "Bincode can only encode sequences and maps that have a knowable size ahead of time"),
            ErrorKind::Custom(s) => write!(f, "{}", s),
        }
    }
}
impl std::error::Error for ErrorKind {}
impl ser::Error for Error { fn custom<T: fmt::Display>(m: T) -> Self { Box::new(ErrorKind::Custom(m.to_string())) } }
impl de::Error for Error { fn custom<T: fmt::Display>(m: T) -> Self { Box::new(ErrorKind::Custom(m.to_string())) } }

fn eof() -> Error { Box::new(ErrorKind::Io(std::io::Error::new(std::io::ErrorKind::UnexpectedEof, "unexpected end of input"))) }

pub fn serialize<T: ?Sized + Serialize>(value: &T) -> Result<Vec<u8>> {
    let mut s = Ser { out: Vec::new() };
    value.serialize(&mut s)?;
    Ok(s.out)
}

pub fn deserialize<'a, T: de::Deserialize<'a>>(bytes: &'a [u8]) -> Result<T> {
    let mut d = De { input: bytes };
    T::deserialize(&mut d)
}

struct Ser { out: Vec<u8> }
impl Ser { fn len(&mut self, n: usize) { self.out.extend_from_slice(&(n as u64).to_le_bytes()); } }

macro_rules! ser_num { ($name:ident, $t:ty) => { fn $name(self, v: $t) -> Result<()> { self.out.extend_from_slice(&v.to_le_bytes()); Ok(()) } }; }

impl<'a> ser::Serializer for &'a mut Ser {
    type Ok = ();
    type Error = Error;
    type SerializeSeq = Self; type SerializeTuple = Self; type SerializeTupleStruct = Self; type SerializeTupleVariant = Self;
    type SerializeMap = Self; type SerializeStruct = Self; type SerializeStructVariant = Self;
    fn serialize_bool(self, v: bool) -> Result<()> { self.out.push(v as u8); Ok(()) }
    ser_num!(serialize_i8, i8); ser_num!(serialize_i16, i16); ser_num!(serialize_i32, i32); ser_num!(serialize_i64, i64); ser_num!(serialize_i128, i128);
    ser_num!(serialize_u8, u8); ser_num!(serialize_u16, u16); ser_num!(serialize_u32, u32); ser_num!(serialize_u64, u64); ser_num!(serialize_u128, u128);
    ser_num!(serialize_f32, f32); ser_num!(serialize_f64, f64);
    fn serialize_char(self, v: char) -> Result<()> { let mut b = [0u8; 4]; self.out.extend_from_slice(v.encode_utf8(&mut b).as_bytes()); Ok(()) }
    fn serialize_str(self, v: &str) -> Result<()> { self.len(v.len()); self.out.extend_from_slice(v.as_bytes()); Ok(()) }
    fn serialize_bytes(self, v: &[u8]) -> Result<()> { self.len(v.len()); self.out.extend_from_slice(v); Ok(()) }
    fn serialize_none(self) -> Result<()> { self.out.push(0); Ok(()) }
    fn serialize_some<T: ?Sized + Serialize>(self, v: &T) -> Result<()> { self.out.push(1); v.serialize(self) }
    fn serialize_unit(self) -> Result<()> { Ok(()) }
    fn serialize_unit_struct(self, _: &'static str) -> Result<()> { Ok(()) }
    fn serialize_unit_variant(self, _: &'static str, idx: u32, _: &'static str) -> Result<()> { self.out.extend_from_slice(&idx.to_le_bytes()); Ok(()) }
    fn serialize_newtype_struct<T: ?Sized + Serialize>(self, _: &'static str, v: &T) -> Result<()> { v.serialize(self) }
    fn serialize_newtype_variant<T: ?Sized + Serialize>(self, _: &'static str, idx: u32, _: &'static str, v: &T) -> Result<()> { self.out.extend_from_slice(&idx.to_le_bytes()); v.serialize(self) }
    fn serialize_seq(self, len: Option<usize>) -> Result<Self> { let n = len.ok_or_else(|| Box::new(ErrorKind::SequenceMustHaveLength))?; self.len(n); Ok(self) }
    fn serialize_tuple(self, _: usize) -> Result<Self> { Ok(self) }
    fn serialize_tuple_struct(self, _: &'static str, _: usize) -> Result<Self> { Ok(self) }
    fn serialize_tuple_variant(self, _: &'static str, idx: u32, _: &'static str, _: usize) -> Result<Self> { self.out.extend_from_slice(&idx.to_le_bytes()); Ok(self) }
    fn serialize_map(self, len: Option<usize>) -> Result<Self> { let n = len.ok_or_else(|| Box::new(ErrorKind::SequenceMustHaveLength))?; self.len(n); Ok(self) }
    fn serialize_struct(self, _: &'static str, _: usize) -> Result<Self> { Ok(self) }
    fn serialize_struct_variant(self, _: &'static str, idx: u32, _: &'static str, _: usize) -> Result<Self> { self.out.extend_from_slice(&idx.to_le_bytes()); Ok(self) }
    fn is_human_readable(&self) -> bool { false }
}
macro_rules! ser_compound { ($tr:path, $f:ident) => { impl<'a> $tr for &'a mut Ser { type Ok = (); type Error = Error;
    fn $f<T: ?Sized + Serialize>(&mut self, v: &T) -> Result<()> { v.serialize(&mut **self) } fn end(self) -> Result<()> { Ok(()) } } }; }
ser_compound!(ser::SerializeSeq, serialize_element);
ser_compound!(ser::SerializeTuple, serialize_element);
ser_compound!(ser::SerializeTupleStruct, serialize_field);
ser_compound!(ser::SerializeTupleVariant, serialize_field);
impl<'a> ser::SerializeMap for &'a mut Ser { type Ok = (); type Error = Error;
    fn serialize_key<T: ?Sized + Serialize>(&mut self, k: &T) -> Result<()> { k.serialize(&mut **self) }
    fn serialize_value<T: ?Sized + Serialize>(&mut self, v: &T) -> Result<()> { v.serialize(&mut **self) }
    fn end(self) -> Result<()> { Ok(()) } }
impl<'a> ser::SerializeStruct for &'a mut Ser { type Ok = (); type Error = Error;
    fn serialize_field<T: ?Sized + Serialize>(&mut self, _: &'static str, v: &T) -> Result<()> { v.serialize(&mut **self) }
    fn end(self) -> Result<()> { Ok(()) } }
impl<'a> ser::SerializeStructVariant for &'a mut Ser { type Ok = (); type Error = Error;
    fn serialize_field<T: ?Sized + Serialize>(&mut self, _: &'static str, v: &T) -> Result<()> { v.serialize(&mut **self) }
    fn end(self) -> Result<()> { Ok(()) } }

struct De<'de> { input: &'de [u8] }
impl<'de> De<'de> {
    fn take(&mut self, n: usize) -> Result<&'de [u8]> { if self.input.len() < n { return Err(eof()); } let (a, b) = self.input.split_at(n); self.input = b; Ok(a) }
    fn u8(&mut self) -> Result<u8> { Ok(self.take(1)?[0]) }
    fn u32(&mut self) -> Result<u32> { Ok(u32::from_le_bytes(self.take(4)?.try_into().unwrap())) }
    fn u64(&mut self) -> Result<u64> { Ok(u64::from_le_bytes(self.take(8)?.try_into().unwrap())) }
    fn len(&mut self) -> Result<usize> { let n = self.u64()?; usize::try_from(n).map_err(|_| Box::new(ErrorKind::SizeLimit)) }
}
macro_rules! de_num { ($name:ident, $visit:ident, $t:ty, $n:expr) => { fn $name<V: Visitor<'de>>(self, v: V) -> Result<V::Value> { let b = self.take($n)?; v.$visit(<$t>::from_le_bytes(b.try_into().unwrap())) } }; }

impl<'de, 'a> de::Deserializer<'de> for &'a mut De<'de> {
    type Error = Error;
    fn deserialize_any<V: Visitor<'de>>(self, _: V) -> Result<V::Value> { Err(Box::new(ErrorKind::DeserializeAnyNotSupported)) }
    fn deserialize_bool<V: Visitor<'de>>(self, v: V) -> Result<V::Value> { match self.u8()? { 0 => v.visit_bool(false), 1 => v.visit_bool(true), b => Err(Box::new(ErrorKind::InvalidBoolEncoding(b))) } }
    de_num!(deserialize_i8, visit_i8, i8, 1); de_num!(deserialize_i16, visit_i16, i16, 2); de_num!(deserialize_i32, visit_i32, i32, 4); de_num!(deserialize_i64, visit_i64, i64, 8); de_num!(deserialize_i128, visit_i128, i128, 16);
    de_num!(deserialize_u8, visit_u8, u8, 1); de_num!(deserialize_u16, visit_u16, u16, 2); de_num!(deserialize_u32, visit_u32, u32, 4); de_num!(deserialize_u64, visit_u64, u64, 8); de_num!(deserialize_u128, visit_u128, u128, 16);
    de_num!(deserialize_f32, visit_f32, f32, 4); de_num!(deserialize_f64, visit_f64, f64, 8);
    fn deserialize_char<V: Visitor<'de>>(self, v: V) -> Result<V::Value> {
        let first = self.u8()?; let width = if first < 0x80 { 1 } else if first >> 5 == 0b110 { 2 } else if first >> 4 == 0b1110 { 3 } else if first >> 3 == 0b11110 { 4 } else { return Err(Box::new(ErrorKind::InvalidCharEncoding)) };
        let mut buf = [first, 0, 0, 0]; for i in 1..width { buf[i] = self.u8()?; }
        let s = std::str::from_utf8(&buf[..width]).map_err(|_| Box::new(ErrorKind::InvalidCharEncoding))?; v.visit_char(s.chars().next().ok_or_else(|| Box::new(ErrorKind::InvalidCharEncoding))?)
    }
    fn deserialize_str<V: Visitor<'de>>(self, v: V) -> Result<V::Value> { let n = self.len()?; let b = self.take(n)?; let s = std::str::from_utf8(b).map_err(|e| Box::new(ErrorKind::InvalidUtf8Encoding(e)))?; v.visit_borrowed_str(s) }
    fn deserialize_string<V: Visitor<'de>>(self, v: V) -> Result<V::Value> { self.deserialize_str(v) }
    fn deserialize_bytes<V: Visitor<'de>>(self, v: V) -> Result<V::Value> { let n = self.len()?; let b = self.take(n)?; v.visit_borrowed_bytes(b) }
    fn deserialize_byte_buf<V: Visitor<'de>>(self, v: V) -> Result<V::Value> { self.deserialize_bytes(v) }
    fn deserialize_option<V: Visitor<'de>>(self, v: V) -> Result<V::Value> { match self.u8()? { 0 => v.visit_none(), 1 => v.visit_some(self), t => Err(Box::new(ErrorKind::InvalidTagEncoding(t as usize))) } }
    fn deserialize_unit<V: Visitor<'de>>(self, v: V) -> Result<V::Value> { v.visit_unit() }
    fn deserialize_unit_struct<V: Visitor<'de>>(self, _: &'static str, v: V) -> Result<V::Value> { v.visit_unit() }
    fn deserialize_newtype_struct<V: Visitor<'de>>(self, _: &'static str, v: V) -> Result<V::Value> { v.visit_newtype_struct(self) }
    fn deserialize_seq<V: Visitor<'de>>(self, v: V) -> Result<V::Value> { let n = self.len()?; v.visit_seq(Counted { de: self, left: n }) }
    fn deserialize_tuple<V: Visitor<'de>>(self, n: usize, v: V) -> Result<V::Value> { v.visit_seq(Counted { de: self, left: n }) }
    fn deserialize_tuple_struct<V: Visitor<'de>>(self, _: &'static str, n: usize, v: V) -> Result<V::Value> { v.visit_seq(Counted { de: self, left: n }) }
    fn deserialize_map<V: Visitor<'de>>(self, v: V) -> Result<V::Value> { let n = self.len()?; v.visit_map(Counted { de: self, left: n }) }
    fn deserialize_struct<V: Visitor<'de>>(self, _: &'static str, fields: &'static [&'static str], v: V) -> Result<V::Value> { v.visit_seq(Counted { de: self, left: fields.len() }) }
    fn deserialize_enum<V: Visitor<'de>>(self, _: &'static str, _: &'static [&'static str], v: V) -> Result<V::Value> { v.visit_enum(self) }
    fn deserialize_identifier<V: Visitor<'de>>(self, _: V) -> Result<V::Value> { Err(de::Error::custom("Bincode does not support Deserializer::deserialize_identifier")) }
    fn deserialize_ignored_any<V: Visitor<'de>>(self, _: V) -> Result<V::Value> { Err(de::Error::custom("Bincode does not support Deserializer::deserialize_ignored_any")) }
    fn is_human_readable(&self) -> bool { false }
}
struct Counted<'a, 'de> { de: &'a mut De<'de>, left: usize }
impl<'a, 'de> SeqAccess<'de> for Counted<'a, 'de> { type Error = Error;
    fn next_element_seed<T: DeserializeSeed<'de>>(&mut self, seed: T) -> Result<Option<T::Value>> { if self.left == 0 { return Ok(None); } self.left -= 1; seed.deserialize(&mut *self.de).map(Some) }
    fn size_hint(&self) -> Option<usize> { Some(self.left.min(4096)) } }
impl<'a, 'de> MapAccess<'de> for Counted<'a, 'de> { type Error = Error;
    fn next_key_seed<K: DeserializeSeed<'de>>(&mut self, seed: K) -> Result<Option<K::Value>> { if self.left == 0 { return Ok(None); } self.left -= 1; seed.deserialize(&mut *self.de).map(Some) }
    fn next_value_seed<V: DeserializeSeed<'de>>(&mut self, seed: V) -> Result<V::Value> { seed.deserialize(&mut *self.de) }
    fn size_hint(&self) -> Option<usize> { Some(self.left.min(4096)) } }
impl<'a, 'de> EnumAccess<'de> for &'a mut De<'de> { type Error = Error; type Variant = Self;
    fn variant_seed<V: DeserializeSeed<'de>>(self, seed: V) -> Result<(V::Value, Self)> { let idx = self.u32()?; let d: serde::de::value::U32Deserializer<Error> = idx.into_deserializer(); let val = seed.deserialize(d)?; Ok((val, self)) } }
impl<'a, 'de> VariantAccess<'de> for &'a mut De<'de> { type Error = Error;
    fn unit_variant(self) -> Result<()> { Ok(()) }
    fn newtype_variant_seed<T: DeserializeSeed<'de>>(self, seed: T) -> Result<T::Value> { seed.deserialize(self) }
    fn tuple_variant<V: Visitor<'de>>(self, n: usize, v: V) -> Result<V::Value> { de::Deserializer::deserialize_tuple(self, n, v) }
    fn struct_variant<V: Visitor<'de>>(self, fields: &'static [&'static str], v: V) -> Result<V::Value> { de::Deserializer::deserialize_tuple(self, fields.len(), v) } }

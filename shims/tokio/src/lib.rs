//! Stand-in for the subset of `tokio` used by distributed-walrus / octopii::wal.
//! Single-threaded deterministic executor with a virtual clock. Every await on one of
//! these primitives is a scheduling point; the harness supplies the choice function.
#![allow(clippy::new_without_default)]

use std::cell::RefCell;
use std::collections::{HashMap, VecDeque};
use std::future::Future;
use std::pin::Pin;
use std::rc::Rc;
use std::task::{Context, Poll, RawWaker, RawWakerVTable, Waker};

pub mod rt {
    use super::*;

    #[derive(Clone, Debug, PartialEq, Eq)]
    pub enum Reason {
        Lock(usize),
        Timer(u64),
        Join(usize),
        Stream(usize),
        Accept(String),
        External(u64),
    }

    pub struct Task {
        pub fut: Option<Pin<Box<dyn Future<Output = ()>>>>,
        pub name: String,
        pub blocked: Vec<Reason>,
        pub done: bool,
        pub polls: u64,
    }

    pub struct Runtime {
        pub tasks: Vec<Task>,
        pub now_ms: u64,
        pub current: Option<usize>,
        pub next_id: usize,
        pub chooser: Option<Box<dyn FnMut(&[usize], &Runtime) -> usize>>,
        pub steps: u64,
        pub listeners: HashMap<String, VecDeque<crate::net::TcpStream>>,
        pub trace: Vec<(u64, usize)>,
    }

    thread_local! {
        pub static RT: RefCell<Runtime> = RefCell::new(Runtime {
            tasks: Vec::new(), now_ms: 0, current: None, next_id: 1, chooser: None, steps: 0,
            listeners: HashMap::new(), trace: Vec::new(),
        });
    }

    pub fn reset() {
        RT.with(|r| {
            let mut r = r.borrow_mut();
            r.tasks.clear();
            r.now_ms = 0;
            r.current = None;
            r.next_id = 1;
            r.steps = 0;
            r.listeners.clear();
            r.trace.clear();
        });
    }

    pub fn set_chooser(f: Box<dyn FnMut(&[usize], &Runtime) -> usize>) {
        RT.with(|r| r.borrow_mut().chooser = Some(f));
    }

    pub fn fresh_id() -> usize {
        RT.with(|r| {
            let mut r = r.borrow_mut();
            r.next_id += 1;
            r.next_id
        })
    }

    pub fn now_ms() -> u64 {
        RT.with(|r| r.borrow().now_ms)
    }

    pub fn block_current(reason: Reason) {
        RT.with(|r| {
            let mut r = r.borrow_mut();
            if let Some(c) = r.current {
                r.tasks[c].blocked.push(reason);
            }
        });
    }

    pub fn wake(reason: &Reason) {
        RT.with(|r| {
            let mut r = r.borrow_mut();
            for t in r.tasks.iter_mut() {
                if t.blocked.iter().any(|b| b == reason) {
                    t.blocked.clear();
                }
            }
        });
    }

    pub fn spawn_named<F: Future<Output = ()> + 'static>(name: &str, f: F) -> usize {
        RT.with(|r| {
            let mut r = r.borrow_mut();
            r.tasks.push(Task { fut: Some(Box::pin(f)), name: name.to_string(), blocked: Vec::new(), done: false, polls: 0 });
            r.tasks.len() - 1
        })
    }

    fn noop_waker() -> Waker {
        fn clone(_: *const ()) -> RawWaker { RawWaker::new(std::ptr::null(), &VT) }
        fn noop(_: *const ()) {}
        static VT: RawWakerVTable = RawWakerVTable::new(clone, noop, noop, noop);
        unsafe { Waker::from_raw(RawWaker::new(std::ptr::null(), &VT)) }
    }

    #[derive(Debug, PartialEq, Eq)]
    pub enum StepResult { Progress, Idle, Deadlock }

    /// Run one scheduling step: pick a runnable task (chooser) and poll it once.
    pub fn step() -> StepResult {
        // collect runnable
        let (runnable, any_alive) = RT.with(|r| {
            let mut r = r.borrow_mut();
            let now = r.now_ms;
            for t in r.tasks.iter_mut() {
                if t.blocked.iter().any(|b| matches!(b, Reason::Timer(d) if *d <= now)) { t.blocked.clear(); }
            }
            let run: Vec<usize> = r.tasks.iter().enumerate().filter(|(_, t)| !t.done && t.blocked.is_empty()).map(|(i, _)| i).collect();
            let alive = r.tasks.iter().any(|t| !t.done);
            (run, alive)
        });
        if runnable.is_empty() {
            if !any_alive { return StepResult::Idle; }
            // advance the clock to the earliest timer
            let next = RT.with(|r| {
                let r = r.borrow();
                r.tasks.iter().filter(|t| !t.done).flat_map(|t| t.blocked.iter()).filter_map(|b| if let Reason::Timer(d) = b { Some(*d) } else { None }).min()
            });
            match next {
                Some(d) => { RT.with(|r| r.borrow_mut().now_ms = d); return StepResult::Progress; }
                None => return StepResult::Deadlock,
            }
        }
        // Offer "let time pass until the next timer" as one more schedulable choice.
        let next_timer = RT.with(|r| {
            let r = r.borrow();
            r.tasks.iter().filter(|t| !t.done).flat_map(|t| t.blocked.iter()).filter_map(|b| if let Reason::Timer(d) = b { Some(*d) } else { None }).min()
        });
        let mut options = runnable.clone();
        if next_timer.is_some() { options.push(usize::MAX); }
        let pick = RT.with(|r| {
            let mut ch = r.borrow_mut().chooser.take();
            let idx = match ch.as_mut() { Some(f) => f(&options, &r.borrow()), None => 0 };
            r.borrow_mut().chooser = ch;
            options[idx.min(options.len() - 1)]
        });
        if pick == usize::MAX {
            // other tasks are runnable: time only creeps forward (a long timeout must not fire
            // just because the scheduler looked away from a runnable task for one step)
            RT.with(|r| { let mut r = r.borrow_mut(); let d = next_timer.unwrap().min(r.now_ms + 10); if d > r.now_ms { r.now_ms = d; } });
            return StepResult::Progress;
        }
        let mut fut = RT.with(|r| {
            let mut r = r.borrow_mut();
            r.current = Some(pick);
            r.steps += 1;
            let s = r.steps;
            r.trace.push((s, pick));
            r.tasks[pick].polls += 1;
            r.tasks[pick].fut.take().expect("task future present")
        });
        let waker = noop_waker();
        let mut cx = Context::from_waker(&waker);
        let res = fut.as_mut().poll(&mut cx);
        RT.with(|r| {
            let mut r = r.borrow_mut();
            r.current = None;
            match res {
                Poll::Ready(()) => { r.tasks[pick].done = true; }
                Poll::Pending => { r.tasks[pick].fut = Some(fut); }
            }
        });
        if let Poll::Ready(()) = res { wake(&Reason::Join(pick)); }
        StepResult::Progress
    }

    pub fn advance_clock(ms: u64) { RT.with(|r| r.borrow_mut().now_ms += ms); }
    pub fn task_done(id: usize) -> bool { RT.with(|r| r.borrow().tasks[id].done) }
    pub fn task_names() -> Vec<(usize, String, bool, bool)> {
        RT.with(|r| r.borrow().tasks.iter().enumerate().map(|(i, t)| (i, t.name.clone(), t.done, t.blocked.is_empty())).collect())
    }
}

/// A future that yields exactly once (scheduling point).
pub struct YieldNow(bool);
impl Future for YieldNow {
    type Output = ();
    fn poll(mut self: Pin<&mut Self>, _cx: &mut Context<'_>) -> Poll<()> {
        if self.0 { Poll::Ready(()) } else { self.0 = true; Poll::Pending }
    }
}
pub fn yield_now() -> YieldNow { YieldNow(false) }

// ---------------------------------------------------------------- task
pub mod task {
    use super::*;
    #[derive(Debug)]
    pub struct JoinError;
    impl std::fmt::Display for JoinError { fn fmt(&self, f: &mut std::fmt::Formatter<'_>) -> std::fmt::Result { write!(f, "join error") } }
    impl std::error::Error for JoinError {}

    pub struct JoinHandle<T> { pub(crate) id: usize, pub(crate) slot: Rc<RefCell<Option<T>>> }
    unsafe impl<T> Send for JoinHandle<T> {}
    impl<T> Future for JoinHandle<T> {
        type Output = Result<T, JoinError>;
        fn poll(self: Pin<&mut Self>, _cx: &mut Context<'_>) -> Poll<Self::Output> {
            if let Some(v) = self.slot.borrow_mut().take() { return Poll::Ready(Ok(v)); }
            if rt::task_done(self.id) { return Poll::Ready(Err(JoinError)); }
            rt::block_current(rt::Reason::Join(self.id));
            Poll::Pending
        }
    }

    pub fn spawn<F>(fut: F) -> JoinHandle<F::Output> where F: Future + 'static, F::Output: 'static {
        let slot = Rc::new(RefCell::new(None));
        let s2 = slot.clone();
        let id = rt::spawn_named("spawned", async move { let v = fut.await; *s2.borrow_mut() = Some(v); });
        JoinHandle { id, slot }
    }

    pub fn spawn_blocking<F, R>(f: F) -> JoinHandle<R> where F: FnOnce() -> R + 'static, R: 'static {
        let slot = Rc::new(RefCell::new(None));
        let s2 = slot.clone();
        let id = rt::spawn_named("blocking", async move { crate::yield_now().await; let v = f(); *s2.borrow_mut() = Some(v); });
        JoinHandle { id, slot }
    }

    pub fn block_in_place<F, R>(f: F) -> R where F: FnOnce() -> R { f() }
}
pub use task::spawn;

// ---------------------------------------------------------------- time
pub mod time {
    use super::*;
    pub use std::time::Duration;

    pub struct Sleep { deadline: u64, yielded: bool }
    impl Future for Sleep {
        type Output = ();
        fn poll(mut self: Pin<&mut Self>, _cx: &mut Context<'_>) -> Poll<()> {
            if !self.yielded { self.yielded = true; if rt::now_ms() < self.deadline { rt::block_current(rt::Reason::Timer(self.deadline)); } return Poll::Pending; }
            if rt::now_ms() >= self.deadline { Poll::Ready(()) } else { rt::block_current(rt::Reason::Timer(self.deadline)); Poll::Pending }
        }
    }
    pub fn sleep(d: Duration) -> Sleep { Sleep { deadline: rt::now_ms() + d.as_millis() as u64, yielded: false } }

    pub struct Interval { period: u64, next: u64 }
    impl Interval {
        pub async fn tick(&mut self) {
            let d = self.next;
            self.next = d + self.period;
            Sleep { deadline: d, yielded: false }.await
        }
    }
    pub fn interval(period: Duration) -> Interval { Interval { period: (period.as_millis() as u64).max(1), next: rt::now_ms() } }

    pub mod error {
        #[derive(Debug)]
        pub struct Elapsed;
        impl std::fmt::Display for Elapsed { fn fmt(&self, f: &mut std::fmt::Formatter<'_>) -> std::fmt::Result { write!(f, "deadline has elapsed") } }
        impl std::error::Error for Elapsed {}
    }

    pub struct Timeout<F> { fut: Pin<Box<F>>, deadline: u64 }
    impl<F: Future> Future for Timeout<F> {
        type Output = Result<F::Output, error::Elapsed>;
        fn poll(mut self: Pin<&mut Self>, cx: &mut Context<'_>) -> Poll<Self::Output> {
            if let Poll::Ready(v) = self.fut.as_mut().poll(cx) { return Poll::Ready(Ok(v)); }
            if rt::now_ms() >= self.deadline { return Poll::Ready(Err(error::Elapsed)); }
            // wake also on the deadline, but only if the inner future blocked the task
            let blocked = rt::RT.with(|r| { let r = r.borrow(); r.current.map(|c| !r.tasks[c].blocked.is_empty()).unwrap_or(false) });
            if blocked { rt::block_current(rt::Reason::Timer(self.deadline)); }
            Poll::Pending
        }
    }
    pub fn timeout<F: Future>(d: Duration, fut: F) -> Timeout<F> { Timeout { fut: Box::pin(fut), deadline: rt::now_ms() + d.as_millis() as u64 } }
}

// ---------------------------------------------------------------- sync
pub mod sync {
    use super::*;
    use std::cell::UnsafeCell;
    use std::ops::{Deref, DerefMut};
    use std::sync::Arc;

    struct LockState { id: usize, writer: bool, readers: usize }

    pub struct Mutex<T> { st: RefCell<LockState>, val: UnsafeCell<T> }
    unsafe impl<T> Send for Mutex<T> {}
    unsafe impl<T> Sync for Mutex<T> {}
    impl<T> Mutex<T> {
        pub fn new(v: T) -> Self { Mutex { st: RefCell::new(LockState { id: rt::fresh_id(), writer: false, readers: 0 }), val: UnsafeCell::new(v) } }
        fn try_acquire(&self) -> bool { let mut s = self.st.borrow_mut(); if s.writer { false } else { s.writer = true; true } }
        fn release(&self) { let id = { let mut s = self.st.borrow_mut(); s.writer = false; s.id }; rt::wake(&rt::Reason::Lock(id)); }
        pub fn lock(&self) -> impl Future<Output = MutexGuard<'_, T>> + '_ {
            Acquire { yielded: false, f: move || if self.try_acquire() { Some(MutexGuard { m: self }) } else { None }, id: self.st.borrow().id }
        }
        pub fn lock_owned(self: Arc<Self>) -> impl Future<Output = OwnedMutexGuard<T>> {
            let id = self.st.borrow().id;
            let me = self;
            Acquire { yielded: false, f: move || if me.try_acquire() { Some(OwnedMutexGuard { m: me.clone() }) } else { None }, id }
        }
    }
    pub struct MutexGuard<'a, T> { m: &'a Mutex<T> }
    impl<'a, T> Deref for MutexGuard<'a, T> { type Target = T; fn deref(&self) -> &T { unsafe { &*self.m.val.get() } } }
    impl<'a, T> DerefMut for MutexGuard<'a, T> { fn deref_mut(&mut self) -> &mut T { unsafe { &mut *self.m.val.get() } } }
    impl<'a, T> Drop for MutexGuard<'a, T> { fn drop(&mut self) { self.m.release(); } }
    pub struct OwnedMutexGuard<T> { m: Arc<Mutex<T>> }
    unsafe impl<T> Send for OwnedMutexGuard<T> {}
    impl<T> Deref for OwnedMutexGuard<T> { type Target = T; fn deref(&self) -> &T { unsafe { &*self.m.val.get() } } }
    impl<T> DerefMut for OwnedMutexGuard<T> { fn deref_mut(&mut self) -> &mut T { unsafe { &mut *self.m.val.get() } } }
    impl<T> Drop for OwnedMutexGuard<T> { fn drop(&mut self) { self.m.release(); } }

    struct Acquire<G, F: FnMut() -> Option<G>> { yielded: bool, f: F, id: usize }
    impl<G, F: FnMut() -> Option<G> + Unpin> Future for Acquire<G, F> {
        type Output = G;
        fn poll(mut self: Pin<&mut Self>, _cx: &mut Context<'_>) -> Poll<G> {
            if !self.yielded { self.yielded = true; return Poll::Pending; }
            match (self.f)() { Some(g) => Poll::Ready(g), None => { rt::block_current(rt::Reason::Lock(self.id)); Poll::Pending } }
        }
    }

    pub struct RwLock<T> { st: RefCell<LockState>, val: UnsafeCell<T> }
    unsafe impl<T> Send for RwLock<T> {}
    unsafe impl<T> Sync for RwLock<T> {}
    impl<T> RwLock<T> {
        pub fn new(v: T) -> Self { RwLock { st: RefCell::new(LockState { id: rt::fresh_id(), writer: false, readers: 0 }), val: UnsafeCell::new(v) } }
        pub fn read(&self) -> impl Future<Output = RwLockReadGuard<'_, T>> + '_ {
            Acquire { yielded: false, id: self.st.borrow().id, f: move || { let mut s = self.st.borrow_mut(); if s.writer { None } else { s.readers += 1; Some(RwLockReadGuard { l: self }) } } }
        }
        pub fn write(&self) -> impl Future<Output = RwLockWriteGuard<'_, T>> + '_ {
            Acquire { yielded: false, id: self.st.borrow().id, f: move || { let mut s = self.st.borrow_mut(); if s.writer || s.readers > 0 { None } else { s.writer = true; Some(RwLockWriteGuard { l: self }) } } }
        }
    }
    pub struct RwLockReadGuard<'a, T> { l: &'a RwLock<T> }
    impl<'a, T> Deref for RwLockReadGuard<'a, T> { type Target = T; fn deref(&self) -> &T { unsafe { &*self.l.val.get() } } }
    impl<'a, T> Drop for RwLockReadGuard<'a, T> { fn drop(&mut self) { let id = { let mut s = self.l.st.borrow_mut(); s.readers -= 1; s.id }; rt::wake(&rt::Reason::Lock(id)); } }
    pub struct RwLockWriteGuard<'a, T> { l: &'a RwLock<T> }
    impl<'a, T> Deref for RwLockWriteGuard<'a, T> { type Target = T; fn deref(&self) -> &T { unsafe { &*self.l.val.get() } } }
    impl<'a, T> DerefMut for RwLockWriteGuard<'a, T> { fn deref_mut(&mut self) -> &mut T { unsafe { &mut *self.l.val.get() } } }
    impl<'a, T> Drop for RwLockWriteGuard<'a, T> { fn drop(&mut self) { let id = { let mut s = self.l.st.borrow_mut(); s.writer = false; s.id }; rt::wake(&rt::Reason::Lock(id)); } }
}

// ---------------------------------------------------------------- net + io
pub mod net {
    use super::*;
    use std::net::SocketAddr;

    pub(crate) struct Pipe { pub buf: VecDeque<u8>, pub closed: bool, pub id: usize }
    pub struct TcpStream { pub(crate) rx: Rc<RefCell<Pipe>>, pub(crate) tx: Rc<RefCell<Pipe>> }
    unsafe impl Send for TcpStream {}
    impl TcpStream {
        /// Harness side: create a connected pair (a, b).
        pub fn pair() -> (TcpStream, TcpStream) {
            let p1 = Rc::new(RefCell::new(Pipe { buf: VecDeque::new(), closed: false, id: rt::fresh_id() }));
            let p2 = Rc::new(RefCell::new(Pipe { buf: VecDeque::new(), closed: false, id: rt::fresh_id() }));
            (TcpStream { rx: p1.clone(), tx: p2.clone() }, TcpStream { rx: p2, tx: p1 })
        }
        pub fn shutdown_write(&self) { let id = { let mut p = self.tx.borrow_mut(); p.closed = true; p.id }; rt::wake(&rt::Reason::Stream(id)); }
        pub fn available(&self) -> usize { self.rx.borrow().buf.len() }
    }
    impl Drop for TcpStream { fn drop(&mut self) { let id = { let mut p = self.tx.borrow_mut(); p.closed = true; p.id }; let _ = rt::RT.try_with(|_| ()).map(|_| rt::wake(&rt::Reason::Stream(id))); } }

    pub struct TcpListener { addr: String }
    impl TcpListener {
        pub async fn bind(addr: &str) -> std::io::Result<TcpListener> {
            rt::RT.with(|r| { r.borrow_mut().listeners.entry(addr.to_string()).or_default(); });
            Ok(TcpListener { addr: addr.to_string() })
        }
        pub async fn accept(&self) -> std::io::Result<(TcpStream, SocketAddr)> {
            loop {
                crate::yield_now().await;
                let got = rt::RT.with(|r| r.borrow_mut().listeners.get_mut(&self.addr).and_then(|q| q.pop_front()));
                if let Some(s) = got { return Ok((s, "127.0.0.1:1".parse().unwrap())); }
                WaitFor(Some(rt::Reason::Accept(self.addr.clone()))).await;
            }
        }
    }
    /// Harness side: connect to a bound listener address.
    pub fn connect(addr: &str) -> Option<TcpStream> {
        let (a, b) = TcpStream::pair();
        let ok = rt::RT.with(|r| { let mut r = r.borrow_mut(); if let Some(q) = r.listeners.get_mut(addr) { q.push_back(b); true } else { false } });
        if ok { rt::wake(&rt::Reason::Accept(addr.to_string())); Some(a) } else { None }
    }

    pub(crate) struct WaitFor(pub Option<rt::Reason>);
    impl Future for WaitFor {
        type Output = ();
        fn poll(mut self: Pin<&mut Self>, _cx: &mut Context<'_>) -> Poll<()> {
            match self.0.take() { Some(r) => { rt::block_current(r); Poll::Pending } None => Poll::Ready(()) }
        }
    }

    pub async fn lookup_host<T: ToString>(host: T) -> std::io::Result<std::vec::IntoIter<SocketAddr>> {
        match host.to_string().parse::<SocketAddr>() {
            Ok(a) => Ok(vec![a].into_iter()),
            Err(_) => Err(std::io::Error::new(std::io::ErrorKind::NotFound, "shim: cannot resolve")),
        }
    }
}

pub mod io {
    use super::*;
    use crate::net::TcpStream;

    pub trait AsyncReadExt {
        fn read_exact<'a>(&'a mut self, buf: &'a mut [u8]) -> Pin<Box<dyn Future<Output = std::io::Result<usize>> + 'a>>;
        /// like tokio's `read`: returns as soon as at least one byte is available (short reads
        /// are normal), 0 at end of stream
        fn read<'a>(&'a mut self, buf: &'a mut [u8]) -> Pin<Box<dyn Future<Output = std::io::Result<usize>> + 'a>>;
    }
    pub trait AsyncWriteExt {
        fn write_all<'a>(&'a mut self, buf: &'a [u8]) -> Pin<Box<dyn Future<Output = std::io::Result<()>> + 'a>>;
    }
    impl AsyncReadExt for TcpStream {
        fn read<'a>(&'a mut self, buf: &'a mut [u8]) -> Pin<Box<dyn Future<Output = std::io::Result<usize>> + 'a>> {
            self.read_some(buf)
        }
        fn read_exact<'a>(&'a mut self, buf: &'a mut [u8]) -> Pin<Box<dyn Future<Output = std::io::Result<usize>> + 'a>> {
            Box::pin(async move {
                loop {
                    crate::yield_now().await;
                    let (have, closed, id) = { let p = self.rx.borrow(); (p.buf.len(), p.closed, p.id) };
                    if have >= buf.len() {
                        let mut p = self.rx.borrow_mut();
                        for b in buf.iter_mut() { *b = p.buf.pop_front().unwrap(); }
                        return Ok(buf.len());
                    }
                    if closed { return Err(std::io::Error::new(std::io::ErrorKind::UnexpectedEof, "early eof")); }
                    crate::net::WaitFor(Some(rt::Reason::Stream(id))).await;
                }
            })
        }
    }
    impl TcpStream {
        fn read_some<'a>(&'a mut self, buf: &'a mut [u8]) -> Pin<Box<dyn Future<Output = std::io::Result<usize>> + 'a>> {
            Box::pin(async move {
                if buf.is_empty() {
                    return Ok(0);
                }
                loop {
                    crate::yield_now().await;
                    let (have, closed, id) = { let p = self.rx.borrow(); (p.buf.len(), p.closed, p.id) };
                    if have > 0 {
                        let n = have.min(buf.len());
                        let mut p = self.rx.borrow_mut();
                        for b in buf.iter_mut().take(n) { *b = p.buf.pop_front().unwrap(); }
                        return Ok(n);
                    }
                    if closed { return Ok(0); }
                    crate::net::WaitFor(Some(rt::Reason::Stream(id))).await;
                }
            })
        }
    }
    impl AsyncWriteExt for TcpStream {
        fn write_all<'a>(&'a mut self, buf: &'a [u8]) -> Pin<Box<dyn Future<Output = std::io::Result<()>> + 'a>> {
            Box::pin(async move {
                crate::yield_now().await;
                let id = { let mut p = self.tx.borrow_mut(); if p.closed { return Err(std::io::Error::new(std::io::ErrorKind::BrokenPipe, "closed")); } p.buf.extend(buf.iter().copied()); p.id };
                rt::wake(&rt::Reason::Stream(id));
                Ok(())
            })
        }
    }
    /// Harness-side helpers (not part of tokio's API).
    impl TcpStream {
        pub fn push_bytes(&self, bytes: &[u8]) { let id = { let mut p = self.tx.borrow_mut(); p.buf.extend(bytes.iter().copied()); p.id }; rt::wake(&rt::Reason::Stream(id)); }
        pub fn drain_bytes(&self) -> Vec<u8> { self.rx.borrow_mut().buf.drain(..).collect() }
    }
}

impl<'a, T: std::fmt::Debug> std::fmt::Debug for sync::RwLockReadGuard<'a, T> { fn fmt(&self, f: &mut std::fmt::Formatter<'_>) -> std::fmt::Result { std::fmt::Debug::fmt(&**self, f) } }
impl<'a, T: std::fmt::Debug> std::fmt::Debug for sync::RwLockWriteGuard<'a, T> { fn fmt(&self, f: &mut std::fmt::Formatter<'_>) -> std::fmt::Result { std::fmt::Debug::fmt(&**self, f) } }
impl<'a, T: std::fmt::Debug> std::fmt::Debug for sync::MutexGuard<'a, T> { fn fmt(&self, f: &mut std::fmt::Formatter<'_>) -> std::fmt::Result { std::fmt::Debug::fmt(&**self, f) } }
impl<T> std::fmt::Debug for sync::Mutex<T> { fn fmt(&self, f: &mut std::fmt::Formatter<'_>) -> std::fmt::Result { write!(f, "Mutex(..)") } }
impl<T: Default> Default for sync::Mutex<T> { fn default() -> Self { sync::Mutex::new(T::default()) } }
impl<T> std::fmt::Debug for sync::RwLock<T> { fn fmt(&self, f: &mut std::fmt::Formatter<'_>) -> std::fmt::Result { write!(f, "RwLock(..)") } }
impl<T: Default> Default for sync::RwLock<T> { fn default() -> Self { sync::RwLock::new(T::default()) } }

//! Stand-in for the parts of `octopii` that distributed-walrus uses.
//! Consensus is replaced by a linearisable, in-order metadata log with per-node apply lag
//! chosen by the scheduler (assumption: Raft is correct; see DESIGN §5 C22, §9).
use bytes::Bytes;
use std::cell::RefCell;
use std::collections::{BTreeSet, HashMap};
use std::future::Future;
use std::net::SocketAddr;
use std::pin::Pin;
use std::sync::Arc;
use std::time::Duration;

pub trait StateMachineTrait: Send + Sync {
    fn apply(&self, command: &[u8]) -> std::result::Result<Bytes, String>;
    fn snapshot(&self) -> Vec<u8>;
    fn restore(&self, data: &[u8]) -> std::result::Result<(), String>;
    fn compact(&self) -> std::result::Result<(), String> { Ok(()) }
}
pub type StateMachine = Arc<dyn StateMachineTrait>;

#[derive(Debug)]
pub enum OctopiiError { Rpc(String), Wal(String), NodeNotFound(u64) }
impl std::fmt::Display for OctopiiError { fn fmt(&self, f: &mut std::fmt::Formatter<'_>) -> std::fmt::Result { write!(f, "{:?}", self) } }
impl std::error::Error for OctopiiError {}
pub type Result<T> = std::result::Result<T, OctopiiError>;

pub mod rpc {
    #[path = "/repo/octopii/src/rpc/message.rs"]
    mod message;
    pub use message::*;
    use super::*;

    pub struct RpcHandler { pub(crate) from: u64 }
    impl RpcHandler {
        pub async fn request(self: &Arc<Self>, addr: SocketAddr, payload: RequestPayload, timeout_duration: Duration) -> Result<RpcResponse> {
            tokio::yield_now().await;
            let target = sim::with(|c| c.nodes.iter().find(|(_, n)| n.addr == addr).map(|(id, _)| *id));
            let Some(target) = target else { return Err(OctopiiError::Rpc(format!("no node at {addr}"))); };
            let handler = sim::with(|c| c.nodes.get(&target).and_then(|n| n.handler.clone()));
            let Some(handler) = handler else { return Err(OctopiiError::Rpc("no handler".into())); };
            let id = sim::with(|c| { c.rpc_seq += 1; c.rpc_seq });
            let _ = self.from;
            let fut = handler(RpcRequest { id, payload });
            let jh = tokio::spawn(fut);
            match tokio::time::timeout(timeout_duration, jh).await {
                Ok(Ok(payload)) => Ok(RpcResponse { id, payload }),
                Ok(Err(_)) => Err(OctopiiError::Rpc("handler task failed".into())),
                Err(_) => Err(OctopiiError::Rpc("timeout".into())),
            }
        }
    }
}
pub use rpc::{RequestPayload, ResponsePayload, RpcRequest};

pub type CustomHandler = Arc<dyn Fn(rpc::RpcRequest) -> Pin<Box<dyn Future<Output = rpc::ResponsePayload>>>>;

pub mod sim {
    use super::*;
    pub struct NodeState { pub sm: StateMachine, pub applied: usize, pub addr: SocketAddr, pub handler: Option<CustomHandler>, pub voter: bool }
    #[derive(Default)]
    pub struct Cluster { pub log: Vec<Vec<u8>>, pub results: Vec<Option<std::result::Result<Bytes, String>>>, pub nodes: HashMap<u64, NodeState>, pub leader: Option<u64>, pub rpc_seq: u64, pub apply_events: Vec<(u64, usize, u64)> }
    thread_local! { static CLUSTER: RefCell<Cluster> = RefCell::new(Cluster::default()); }
    pub fn with<R>(f: impl FnOnce(&mut Cluster) -> R) -> R { CLUSTER.with(|c| f(&mut c.borrow_mut())) }
    pub fn reset() { with(|c| *c = Cluster::default()); }
    /// Apply the next unapplied command on `node` (returns false if caught up).
    pub fn apply_one(node: u64) -> bool {
        let next = with(|c| { let n = c.nodes.get(&node)?; if n.applied < c.log.len() { Some((n.applied, c.log[n.applied].clone(), n.sm.clone())) } else { None } });
        let Some((idx, cmd, sm)) = next else { return false; };
        let res = sm.apply(&cmd);
        with(|c| { c.nodes.get_mut(&node).unwrap().applied = idx + 1; c.apply_events.push((node, idx, tokio::rt::RT.with(|r| r.borrow().steps))); if c.leader == Some(node) { if c.results.len() <= idx { c.results.resize(idx + 1, None); } c.results[idx] = Some(res); } });
        true
    }
}

#[derive(Clone, Debug, serde::Serialize)]
pub struct Membership { configs: Vec<BTreeSet<u64>> }
impl Membership { pub fn get_joint_config(&self) -> &Vec<BTreeSet<u64>> { &self.configs } }
#[derive(Clone, Debug, serde::Serialize)]
pub struct StoredMembership { membership: Membership }
impl StoredMembership { pub fn membership(&self) -> &Membership { &self.membership } }
#[derive(Clone, Debug, serde::Serialize)]
pub struct RaftMetrics { pub id: u64, pub current_leader: Option<u64>, pub state: String, pub last_log_index: Option<u64>, pub membership_config: StoredMembership }

#[derive(Clone, Debug, Default)]
pub struct Config { pub node_id: u64, pub bind_addr: Option<SocketAddr> }
#[derive(Clone)]
pub struct OctopiiRuntime;

pub struct OpenRaftNode { id: u64, rpc: Arc<rpc::RpcHandler> }
pub use OpenRaftNode as OctopiiNode;

impl OpenRaftNode {
    /// Harness constructor: registers the node in the simulated cluster.
    pub fn sim_new(id: u64, addr: SocketAddr, sm: StateMachine, voter: bool) -> Self {
        sim::with(|c| { c.nodes.insert(id, sim::NodeState { sm, applied: 0, addr, handler: None, voter }); if c.leader.is_none() { c.leader = Some(id); } });
        OpenRaftNode { id, rpc: Arc::new(rpc::RpcHandler { from: id }) }
    }
    pub fn rpc_handler(&self) -> Arc<rpc::RpcHandler> { self.rpc.clone() }
    pub async fn set_custom_rpc_handler<F>(&self, handler: F) where F: Fn(rpc::RpcRequest) -> Pin<Box<dyn Future<Output = rpc::ResponsePayload>>> + 'static {
        let h: CustomHandler = Arc::new(handler);
        sim::with(|c| c.nodes.get_mut(&self.id).unwrap().handler = Some(h));
    }
    pub async fn propose(&self, command: Vec<u8>) -> Result<Bytes> {
        tokio::yield_now().await;
        if sim::with(|c| c.leader) != Some(self.id) { return Err(OctopiiError::Rpc("not leader".into())); }
        let idx = sim::with(|c| { c.log.push(command); c.log.len() - 1 });
        tokio::yield_now().await;
        // the leader applies everything up to idx before answering
        while sim::with(|c| c.nodes[&self.id].applied) <= idx { sim::apply_one(self.id); }
        let res = sim::with(|c| c.results.get(idx).cloned().flatten());
        match res { Some(Ok(b)) => Ok(b), Some(Err(e)) => Err(OctopiiError::Rpc(e)), None => Err(OctopiiError::Rpc("no result".into())) }
    }
    pub async fn is_leader(&self) -> bool { tokio::yield_now().await; sim::with(|c| c.leader) == Some(self.id) }
    pub fn raft_metrics(&self) -> RaftMetrics {
        sim::with(|c| {
            let voters: BTreeSet<u64> = c.nodes.iter().filter(|(_, n)| n.voter).map(|(id, _)| *id).collect();
            RaftMetrics { id: self.id, current_leader: c.leader, state: if c.leader == Some(self.id) { "Leader".into() } else { "Follower".into() }, last_log_index: c.log.len().checked_sub(1).map(|x| x as u64), membership_config: StoredMembership { membership: Membership { configs: vec![voters] } } }
        })
    }
    pub fn id(&self) -> u64 { self.id }
    pub async fn peer_addr_for(&self, peer_id: u64) -> Option<SocketAddr> { sim::with(|c| c.nodes.get(&peer_id).map(|n| n.addr)) }
    pub async fn update_peer_addr(&self, _peer_id: u64, _addr: SocketAddr) {}
    pub async fn add_learner(&self, _peer_id: u64, _addr: SocketAddr) -> Result<()> { Ok(()) }
    pub async fn promote_learner(&self, peer_id: u64) -> Result<()> { sim::with(|c| if let Some(n) = c.nodes.get_mut(&peer_id) { n.voter = true; }); Ok(()) }
    pub async fn is_learner_caught_up(&self, peer_id: u64) -> Result<bool> { Ok(sim::with(|c| c.nodes.get(&peer_id).map(|n| n.applied == c.log.len()).unwrap_or(false))) }
}

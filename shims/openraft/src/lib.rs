//! Type-level stand-in for the parts of `openraft` that octopii/src/openraft/{storage,types}.rs name.
//! It carries data and declares the storage traits; it contains no consensus logic.
use serde::{Deserialize, Serialize};
use std::collections::BTreeSet;
use std::fmt::Debug;
use std::io;
use std::ops::RangeBounds;

pub trait OptionalSend {}
impl<T: ?Sized> OptionalSend for T {}

pub trait RaftTypeConfig: Sized + Clone + Copy + Debug + Default + Eq + PartialEq + Ord + PartialOrd + 'static {
    type D: Clone + Debug + Serialize + for<'a> Deserialize<'a> + 'static;
    type R: Clone + Debug + 'static;
    type NodeId: Clone + Copy + Debug + Default + Eq + Ord + Serialize + for<'a> Deserialize<'a> + std::fmt::Display + 'static;
    type SnapshotData;
}

#[macro_export]
macro_rules! declare_raft_types {
    ($vis:vis $name:ident : D = $d:ty, R = $r:ty, NodeId = $n:ty $(,)?) => {
        #[derive(Clone, Copy, Debug, Default, Eq, PartialEq, Ord, PartialOrd, serde::Serialize, serde::Deserialize)]
        $vis struct $name;
        impl $crate::RaftTypeConfig for $name { type D = $d; type R = $r; type NodeId = $n; type SnapshotData = std::io::Cursor<Vec<u8>>; }
    };
}

#[derive(Serialize, Deserialize)]
#[serde(bound = "")]
pub struct LeaderId<C: RaftTypeConfig> { pub term: u64, pub node_id: C::NodeId }
impl<C: RaftTypeConfig> Clone for LeaderId<C> { fn clone(&self) -> Self { *self } }
impl<C: RaftTypeConfig> Copy for LeaderId<C> {}
impl<C: RaftTypeConfig> Debug for LeaderId<C> { fn fmt(&self, f: &mut std::fmt::Formatter<'_>) -> std::fmt::Result { write!(f, "T{}-N{}", self.term, self.node_id) } }
impl<C: RaftTypeConfig> PartialEq for LeaderId<C> { fn eq(&self, o: &Self) -> bool { self.term == o.term && self.node_id == o.node_id } }
impl<C: RaftTypeConfig> Eq for LeaderId<C> {}
impl<C: RaftTypeConfig> PartialOrd for LeaderId<C> { fn partial_cmp(&self, o: &Self) -> Option<std::cmp::Ordering> { Some(self.cmp(o)) } }
impl<C: RaftTypeConfig> Ord for LeaderId<C> { fn cmp(&self, o: &Self) -> std::cmp::Ordering { (self.term, self.node_id).cmp(&(o.term, o.node_id)) } }

#[derive(Serialize, Deserialize)]
#[serde(bound = "")]
pub struct LogId<C: RaftTypeConfig> { pub leader_id: LeaderId<C>, pub index: u64 }
impl<C: RaftTypeConfig> LogId<C> { pub fn new(term: u64, node_id: C::NodeId, index: u64) -> Self { LogId { leader_id: LeaderId { term, node_id }, index } } }
impl<C: RaftTypeConfig> Clone for LogId<C> { fn clone(&self) -> Self { *self } }
impl<C: RaftTypeConfig> Copy for LogId<C> {}
impl<C: RaftTypeConfig> Debug for LogId<C> { fn fmt(&self, f: &mut std::fmt::Formatter<'_>) -> std::fmt::Result { write!(f, "{:?}.{}", self.leader_id, self.index) } }
impl<C: RaftTypeConfig> PartialEq for LogId<C> { fn eq(&self, o: &Self) -> bool { self.leader_id == o.leader_id && self.index == o.index } }
impl<C: RaftTypeConfig> Eq for LogId<C> {}
impl<C: RaftTypeConfig> PartialOrd for LogId<C> { fn partial_cmp(&self, o: &Self) -> Option<std::cmp::Ordering> { Some(self.cmp(o)) } }
impl<C: RaftTypeConfig> Ord for LogId<C> { fn cmp(&self, o: &Self) -> std::cmp::Ordering { (self.leader_id, self.index).cmp(&(o.leader_id, o.index)) } }

#[derive(Serialize, Deserialize)]
#[serde(bound = "")]
pub struct Vote<C: RaftTypeConfig> { pub leader_id: LeaderId<C>, pub committed: bool }
impl<C: RaftTypeConfig> Clone for Vote<C> { fn clone(&self) -> Self { Vote { leader_id: self.leader_id, committed: self.committed } } }
impl<C: RaftTypeConfig> Debug for Vote<C> { fn fmt(&self, f: &mut std::fmt::Formatter<'_>) -> std::fmt::Result { write!(f, "vote({:?},{})", self.leader_id, self.committed) } }
impl<C: RaftTypeConfig> PartialEq for Vote<C> { fn eq(&self, o: &Self) -> bool { self.leader_id == o.leader_id && self.committed == o.committed } }

#[derive(Serialize, Deserialize, Clone, Debug, Default, PartialEq, Eq)]
#[serde(bound = "")]
pub struct Membership<C: RaftTypeConfig> { pub configs: Vec<BTreeSet<C::NodeId>> }

#[derive(Serialize, Deserialize)]
#[serde(bound = "")]
pub struct StoredMembership<C: RaftTypeConfig> { pub log_id: Option<LogId<C>>, pub membership: Membership<C> }
impl<C: RaftTypeConfig> StoredMembership<C> { pub fn new(log_id: Option<LogId<C>>, membership: Membership<C>) -> Self { StoredMembership { log_id, membership } } }
impl<C: RaftTypeConfig> Clone for StoredMembership<C> { fn clone(&self) -> Self { StoredMembership { log_id: self.log_id, membership: self.membership.clone() } } }
impl<C: RaftTypeConfig> Default for StoredMembership<C> { fn default() -> Self { StoredMembership { log_id: None, membership: Membership { configs: vec![] } } } }
impl<C: RaftTypeConfig> Debug for StoredMembership<C> { fn fmt(&self, f: &mut std::fmt::Formatter<'_>) -> std::fmt::Result { write!(f, "membership@{:?}", self.log_id) } }
impl<C: RaftTypeConfig> PartialEq for StoredMembership<C> { fn eq(&self, o: &Self) -> bool { self.log_id == o.log_id && self.membership == o.membership } }

#[derive(Serialize, Deserialize)]
#[serde(bound = "")]
pub enum EntryPayload<C: RaftTypeConfig> { Blank, Normal(C::D), Membership(Membership<C>) }
impl<C: RaftTypeConfig> Clone for EntryPayload<C> { fn clone(&self) -> Self { match self { EntryPayload::Blank => EntryPayload::Blank, EntryPayload::Normal(d) => EntryPayload::Normal(d.clone()), EntryPayload::Membership(m) => EntryPayload::Membership(m.clone()) } } }
impl<C: RaftTypeConfig> Debug for EntryPayload<C> { fn fmt(&self, f: &mut std::fmt::Formatter<'_>) -> std::fmt::Result { match self { EntryPayload::Blank => write!(f, "blank"), EntryPayload::Normal(d) => write!(f, "normal({:?})", d), EntryPayload::Membership(_) => write!(f, "membership") } } }

#[derive(Serialize, Deserialize)]
#[serde(bound = "")]
pub struct Entry<C: RaftTypeConfig> { pub log_id: LogId<C>, pub payload: EntryPayload<C> }
impl<C: RaftTypeConfig> Clone for Entry<C> { fn clone(&self) -> Self { Entry { log_id: self.log_id, payload: self.payload.clone() } } }
impl<C: RaftTypeConfig> Debug for Entry<C> { fn fmt(&self, f: &mut std::fmt::Formatter<'_>) -> std::fmt::Result { write!(f, "{:?}:{:?}", self.log_id, self.payload) } }

#[derive(Debug)]
pub struct StorageError<C: RaftTypeConfig>(pub String, std::marker::PhantomData<C>);

pub mod alias { pub type SnapshotDataOf<C> = <C as crate::RaftTypeConfig>::SnapshotData; }

pub trait RaftLogReader<C: RaftTypeConfig> {
    fn try_get_log_entries<RB: RangeBounds<u64> + Clone + Debug + Send>(&mut self, range: RB) -> impl std::future::Future<Output = Result<Vec<Entry<C>>, io::Error>>;
    fn read_vote(&mut self) -> impl std::future::Future<Output = Result<Option<Vote<C>>, io::Error>>;
}

pub mod storage {
    use super::*;
    use std::future::Future;
    pub struct LogState<C: RaftTypeConfig> { pub last_purged_log_id: Option<LogId<C>>, pub last_log_id: Option<LogId<C>> }
    #[derive(Serialize, Deserialize)]
    #[serde(bound = "")]
    pub struct SnapshotMeta<C: RaftTypeConfig> { pub last_log_id: Option<LogId<C>>, pub last_membership: StoredMembership<C>, pub snapshot_id: String }
    impl<C: RaftTypeConfig> Clone for SnapshotMeta<C> { fn clone(&self) -> Self { SnapshotMeta { last_log_id: self.last_log_id, last_membership: self.last_membership.clone(), snapshot_id: self.snapshot_id.clone() } } }
    impl<C: RaftTypeConfig> Debug for SnapshotMeta<C> { fn fmt(&self, f: &mut std::fmt::Formatter<'_>) -> std::fmt::Result { write!(f, "snapmeta({:?},{})", self.last_log_id, self.snapshot_id) } }
    pub struct Snapshot<C: RaftTypeConfig> { pub meta: SnapshotMeta<C>, pub snapshot: C::SnapshotData }
    pub struct IOFlushed<C: RaftTypeConfig> { pub done: std::rc::Rc<std::cell::Cell<Option<bool>>>, _p: std::marker::PhantomData<C> }
    impl<C: RaftTypeConfig> IOFlushed<C> {
        pub fn new() -> (Self, std::rc::Rc<std::cell::Cell<Option<bool>>>) { let c = std::rc::Rc::new(std::cell::Cell::new(None)); (IOFlushed { done: c.clone(), _p: std::marker::PhantomData }, c) }
        pub async fn io_completed(self, r: Result<(), io::Error>) { self.done.set(Some(r.is_ok())); }
    }
    pub struct Responder<C: RaftTypeConfig> { pub out: std::rc::Rc<std::cell::RefCell<Vec<C::R>>> }
    impl<C: RaftTypeConfig> Responder<C> { pub fn send(self, r: C::R) { self.out.borrow_mut().push(r); } }
    pub type EntryResponder<C> = (Entry<C>, Option<Responder<C>>);

    pub trait RaftLogStorage<C: RaftTypeConfig>: Sized {
        type LogReader: RaftLogReader<C>;
        fn get_log_state(&mut self) -> impl Future<Output = Result<LogState<C>, io::Error>>;
        fn save_committed(&mut self, committed: Option<LogId<C>>) -> impl Future<Output = Result<(), io::Error>>;
        fn read_committed(&mut self) -> impl Future<Output = Result<Option<LogId<C>>, io::Error>>;
        fn save_vote(&mut self, vote: &Vote<C>) -> impl Future<Output = Result<(), io::Error>>;
        fn append<I>(&mut self, entries: I, callback: IOFlushed<C>) -> impl Future<Output = Result<(), io::Error>> where I: IntoIterator<Item = Entry<C>> + OptionalSend, I::IntoIter: OptionalSend;
        fn truncate(&mut self, log_id: LogId<C>) -> impl Future<Output = Result<(), io::Error>>;
        fn purge(&mut self, log_id: LogId<C>) -> impl Future<Output = Result<(), io::Error>>;
        fn get_log_reader(&mut self) -> impl Future<Output = Self::LogReader>;
    }
    pub trait RaftSnapshotBuilder<C: RaftTypeConfig> {
        fn build_snapshot(&mut self) -> impl Future<Output = Result<Snapshot<C>, io::Error>>;
    }
    pub trait RaftStateMachine<C: RaftTypeConfig>: Sized {
        type SnapshotBuilder: RaftSnapshotBuilder<C>;
        fn applied_state(&mut self) -> impl Future<Output = Result<(Option<LogId<C>>, StoredMembership<C>), io::Error>>;
        fn apply<Strm>(&mut self, entries: Strm) -> impl Future<Output = Result<(), io::Error>> where Strm: futures_like::StreamLike<Item = Result<EntryResponder<C>, io::Error>> + Unpin + OptionalSend;
        fn begin_receiving_snapshot(&mut self) -> impl Future<Output = Result<C::SnapshotData, io::Error>>;
        fn install_snapshot(&mut self, meta: &SnapshotMeta<C>, snapshot: C::SnapshotData) -> impl Future<Output = Result<(), io::Error>>;
        fn get_current_snapshot(&mut self) -> impl Future<Output = Result<Option<Snapshot<C>>, io::Error>>;
        fn get_snapshot_builder(&mut self) -> impl Future<Output = Self::SnapshotBuilder>;
    }
    pub mod futures_like { pub use ::futures_shim::Stream as StreamLike; }
}

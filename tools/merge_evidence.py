#!/usr/bin/env python3
"""merge_evidence.py <first.json> <second.json>: fold the first part's evidence into the second
file (same property, two executables): counts add up, lists are concatenated."""
import json, sys
a = json.load(open(sys.argv[1])); b = json.load(open(sys.argv[2]))
ca, cb = a["coverage"], b["coverage"]
out = dict(b)
cov = dict(cb)
for k in ("evaluations", "distinct_nontrivial", "inconclusive_cases"):
    cov[k] = ca.get(k, 0) + cb.get(k, 0)
cov["rule"] = "part 1 - " + ca.get("rule", "") + " || part 2 - " + cb.get("rule", "")
for k in ("samples", "searches", "excluded_by_known_findings", "known_findings_reproduced"):
    va, vb = ca.get(k, []), cb.get(k, [])
    if isinstance(va, list) and isinstance(vb, list):
        cov[k] = va + vb
    elif isinstance(va, dict) and isinstance(vb, dict):
        cov[k] = {**va, **vb}
fa, fb = ca.get("features", {}), cb.get("features", {})
if isinstance(fa, dict) and isinstance(fb, dict):
    f = dict(fa)
    for k, v in fb.items():
        f[k] = f.get(k, 0) + v if isinstance(v, (int, float)) and isinstance(f.get(k, 0), (int, float)) else v
    cov["features"] = f
for k, v in ca.items():
    cov.setdefault(k, v)
out["coverage"] = cov
out["assumptions"] = list(dict.fromkeys(a.get("assumptions", []) + b.get("assumptions", [])))
out["wall_s"] = round(a.get("wall_s", 0) + b.get("wall_s", 0), 3)
out["violations"] = a.get("violations", 0) + b.get("violations", 0)
json.dump(out, open(sys.argv[2], "w"), indent=2)

#!/bin/bash
# usage: soak.sh <seed> [props...] - runs quick checks on the current tree, one line per check
seed="$1"; shift
props="$@"; [ -z "$props" ] && props="C01 C02 C03 C04 C05 C06 C07 C08 C09 C10 C11 C12 C13 C14 C15 C16 C17 C18 C20 C21 C22 C23 C24 C25"
cd /verif
for p in $props; do
  t0=$(date +%s); out=$(VERIF_SEED=$seed ./check $p --tier quick 2>&1); rc=$?; t1=$(date +%s)
  echo "seed=$seed $p rc=$rc $((t1-t0))s $(echo "$out" | grep -E '^(OK|VIOLATION|INCONCLUSIVE|BUILD)' | head -1 | cut -c1-200)"
done

#!/usr/bin/env python3
"""Regenerates /verif/MANIFEST.json from the table below (single source of truth)."""
import json, os
ROOT = os.path.dirname(os.path.dirname(os.path.abspath(__file__)))
props = [json.loads(l) for l in open(os.path.join(ROOT, 'properties.jsonl'))]
ids = [p['id'] for p in props]

# id -> (engine, category, technique, level text, level note, design_ref)
CHECKS = {
 'C01': ('E1', 'exploration', 'stateful model-based property testing (proptest histories vs FIFO reference model, child-process executor)',
         'Generated append/batch/read histories over several topics, three payload-size profiles reaching real 10 MiB block rotation and >10 MiB entries, both consistency modes and both backends, compared step by step with an independent FIFO model and drained at the end. Finds skipped/duplicated/reordered/corrupted entries; it cannot show their absence.',
         'Trusted: the reference model (model.rs), payload identification by (length, 64-bit hash), proptest. Bounded history length and sizes (<=25 MiB entries).', '§5 C01'),
 'C03': ('E1', 'exploration', 'model-based property testing with model-aimed budgets (validity predicate: cap, budget, progress)',
         'Batch-read dominated histories with budgets computed from the model (0, 1, len(next)±1, sum(next k)±1, usize::MAX) at generated cursor positions; validity predicate over every result.',
         'Progress is judged against the FIFO model; a content divergence (C01) ends the case without verdict.', '§5 C03'),
 'C06': ('E1', 'exploration', 'stateful model-based property testing with restart events (fresh process / in-process) and wall-clock regression between lifetimes',
         'Generated histories with 1..n reopen events, rejected operations and payloads from 0 B to 25 MiB; in StrictlyAtOnce mode the FIFO model simply ignores reopen events, in AtLeastOnce mode a candidate-set model allows the cursor to move back but never forward.',
         'Clean shutdown is a normal process exit or drop after all appends returned; durability below the page cache is C10.', '§5 C06'),
 'C17': ('E1', 'exploration', 'model-based property testing of marker histories with reopen at generated delays',
         'Histories over append/mark_clean/mark_dirty/is_clean/sleep/reopen with a probe of every topic after each reopen against a boolean-per-topic model; reopen happens at 0..250 ms after the last call, in a fresh process or in-process. A second search (marker-outage) adds transient outages of the marker file (the driver occupies the name of its temporary file with a directory - mkdir/rmdir only - and always frees it before a shutdown): what was acknowledged during the outage must be what the next lifetime reports.',
         'After a failed append or an empty batch the marker state is unspecified and the model accepts either value until the next defining call.', '§5 C17'),
 'C15': ('E1', 'exploration', 'model-based property testing with count probes after every operation',
         'Count and count-map probes after every operation of generated histories with rejected operations, peeks, offset reads and restarts, compared with appended-consumed of the FIFO model; plus counts at quiescence after scheduled producer/consumer races.',
         'Counts after an AtLeastOnce restart are not judged. The concurrent clause runs under the H2 token scheduler (cfg walrus_verif).', '§5 C15'),
}
CHECKS.update({
 'C21': ('E8', 'exploration', 'stateful model-based property testing with process restarts (clean exit and SIGKILL after the last acknowledged operation) of octopii\'s WriteAheadLog and WalLogStore',
         'Layer 1: generated append / restart histories on WriteAheadLog (the only persistence mechanism of the log store and the peer address book); every lifetime opens the store and read_all() must return exactly the acknowledged records; one case in six or seven holds a log larger than one 10 MiB read batch made of 36-64 KiB records. Layer 2: generated Raft-shaped histories (append, truncate, purge, save_vote, save_committed, restarts) on WalLogStore against an in-memory model of the acknowledged operations.',
         'openraft is replaced by a type-level stand-in (no consensus logic), tokio by the deterministic stand-in executor; the peer-address helpers of node.rs cannot be compiled offline and are covered through the WriteAheadLog they delegate to. Open finding C21-read-all-consumes is probed on every run; while it is open, restarts after the first one are excluded from the main search.', '§5 C21'),
 'C10': ('E2', 'fault_enumeration', 'power-loss state enumeration from an I/O trace (H1): for loss points of generated SyncEach workloads every subset / sampled subsets of the unsynced writes, creations and renames is materialised as a directory and recovered by a fresh process',
         'The traced run records every foreground I/O event with its bytes; for each loss point the directory is rebuilt under the model "explicitly synced data and directory entries are durable, everything else is kept or lost independently", opened and drained; acknowledged appends must be there in order and (StrictlyAtOnce) acknowledged consumption must not be redelivered.',
         'The durability model is the one stated in the property; clean-marker files are not rebuilt. Payloads <= 64 KiB (the trace carries the bytes).', '§5 C10'),
 'C11': ('E5', 'exploration', 'structure-aware mutation testing of on-disk state (valid directory from a generated workload, mutations aimed at entry headers / payloads / cursor and marker files / file structure, stray files) with a crash-freedom and payload-membership oracle in a fresh process',
         'A generated workload builds a valid directory; 1-4 generated mutations damage it; a fresh process with debug assertions on opens it and reads every topic through every API under a watchdog. No panic, abort, signal or hang; every returned payload must have been appended to that topic.',
         'UB is detected through debug assertions (bounds, alignment, overflow), not through a sanitizer build. Loss or duplication of entries is not judged here.', '§5 C11'),
 'C22': ('E7', 'exploration', 'deterministic simulation testing: generated client programs x generated task schedules on a single-threaded executor (stand-in tokio with virtual clock, linearisable stand-in for the Raft metadata log with schedule-chosen apply lag), exactly-once / order oracle over all GET responses',
         'The repository\'s controller, bucket (on the real walrus-rust engine), client listener, lease loop and monitor run unmodified; every await is a scheduling point decided by generated schedule bytes. 1-3 nodes, rollover thresholds 1-4, 2-4 lock-step clients; afterwards the cluster quiesces and every topic is drained through a generated node. Every PUT answered OK must be returned by exactly one GET, in acknowledgement order per producer for GETs ordered in real time.',
         'Consensus is assumed correct (stand-in octopii = linearisable in-order log). Open finding C22-rollover-count-race is probed on every run; while it is open, cases outside the fenced shape (single node, one producer per topic, no Monitor) run with a rollover threshold that is never reached.', '§5 C22'),
 'C23': ('E7', 'exploration', 'deterministic simulation testing with a per-step invariant over observed segment sizes (fencing oracle)',
         'Same simulated cluster runs as C22; after every scheduler step the size of every (topic, segment) log on every node is read through the public Storage API: it must not grow on a node after that node applied the rollover sealing the segment, nor while the node\'s applied metadata assigns the segment to another node.',
         'Open finding C23-lease-check-not-atomic-with-write is probed on every run; its trigger (an append in flight while a rollover of that topic is applied on the same node) is excluded by the same generator rule as for C22.', '§5 C23'),
 'C24': ('E7', 'exploration', 'grammar-based generation of client byte streams (valid, malformed and oversized frames in generated chunkings) against the real listener on an in-memory duplex, response-count / response-class / payload round-trip oracle',
         'Generated frame streams are written to a connection accepted by start_client_listener; exactly one response per frame in order, each of the class its frame demands, and every GET returns the oldest unread PUT payload byte-identically modulo trailing whitespace.',
         'Single node and single connection (FIFO expectation). Stand-in tokio TcpStream.', '§5 C24'),
 'C18': ('E6', 'exploration', 'exhaustive bounded enumeration of command sequences (prefix-shared tree over a 36-command alphabet) plus proptest sequences with invalid and mutated encodings, invariant oracle with sealed-segment history',
         'metadata.rs is included unmodified and driven in-process: every command sequence up to length 5 (quick) / 6 (thorough) over a 36-command alphabet, generated sequences of up to 400 commands with arbitrary names and counts, and raw / mutated byte strings; after every command the invariants of the property are checked and an Err must leave the state unchanged.',
         'Decoding uses the stand-in bincode codec (/verif/shims/bincode, wire format of bincode 1.3 defaults). Counts above 2^32 only arise through mutated encodings.', '§5 C18'),
 'C20': ('E6', 'exploration', 'round-trip / differential property testing of snapshot transfer: (a) the state machine\'s own snapshot/restore and (b) build/install through octopii\'s Raft state-machine adapter, each followed by a common generated suffix on both replicas',
         'Clause (a): for generated s1 ++ s2 the machine restored from A\'s snapshot must equal A (through the public getters and canonicalised) and answer and evolve identically under s2; damaged snapshots must be rejected without effect or accepted. Clause (b): the repository\'s MemStateMachine adapter (octopii/src/openraft/storage.rs, unmodified) with the real Metadata behind it applies generated logs (commands, blank and membership entries, 1-5 entries per apply call); the sender builds a snapshot and goes on; a fresh or lagging receiver installs it, catches up and both apply a common suffix; optionally a third node installs the receiver\'s current snapshot. Receiver metadata = sender metadata as of the build, applied_state = snapshot meta, equal answers and state after every later entry.',
         'Clause (b) runs the adapter on a type-level stand-in for openraft (data carriers and trait declarations; openraft\'s own snapshot streaming and chunking are not executed). Decoding uses the stand-in bincode codec.', '§5 C20, II.9'),
 'C25': ('E6', 'exploration', 'exhaustive small-alphabet enumeration plus proptest pairs: round trip and injectivity of the storage key codec',
         'controller/types.rs included unmodified; all 3906 topics of length <= 5 over {t,s,_,1,0} x 6 segments (round trip, no shared key) and generated Unicode topics weighted towards the separator fragments with arbitrary u64 segments (round trip, pairwise distinct keys, boundary-shift near misses).',
         'None beyond proptest.', '§5 C25'),
 'C12': ('E1', 'exploration', 'model-based property testing of reclamation histories on the real file geometry (fill a whole WAL file, generated consumption plans, wait for the reclaimer, restart) with a FIFO oracle and a direct "reclaimed file held only consumed entries" oracle',
         'Each generated case allocates all 100 blocks of the first WAL file over 1-5 topics and moves every active block to the second file, applies a generated per-topic consumption plan (drain + empty polls / partial / peeks / nothing) and extra reads, waits for the 1000-tick reclaimer, runs a second phase and then demands - normally after a fresh-process restart - exactly the unconsumed entries; if a WAL file disappeared, every entry stored in it must have been consumed.',
         'Open finding C12-positions-shift-after-reclaim (restart after a reclaimed file renumbers blocks; persisted cursors then skip unconsumed entries) is probed on every run; while it is open, cases in which a file really was reclaimed are finished without the restart. ~0.6 GB of tmpfs per case.', '§5 C12'),
 'C13': ('E4', 'exploration', 'model-based property testing with several live instances in one process (per-instance FIFO/marker models, foreign-entry detection, directory watching) plus a heavy two-instance reclamation cross-talk scenario',
         '2-3 instances from six (data dir, key) slots (incl. an un-keyed instance in the parent directory of keyed ones and a digit-only key that looks like a WAL file name) share topic names and run interleaved generated histories incl. in-process reopen of one instance and whole-process restarts; every response is judged against that instance\'s own model and no WAL file of another instance may disappear. Heavy search: both instances allocate >100 blocks in lock-step, one consumes everything, the other nothing; no file of the idle instance may be reclaimed and after a restart it must deliver everything.',
         'All instances live in one child process. Payloads >= 8 bytes are unique across instances.', '§5 C13'),
 'C05': ('E3', 'exploration', 'schedule-controlled concurrency testing (H2 token scheduler: generated thread programs x generated schedules, plus preemption-bounded enumeration of all schedules of small two-thread programs) with an exactly-once / real-time-order oracle',
         'Real threads run the real engine one at a time; at every lock-free yield point of the read/append paths the generated schedule decides who continues, so interleavings are inputs and replayable. Oracle: delivered multiset == successfully appended multiset, per-producer order inside each read result and between reads ordered in real time, batch contiguity; a producers-only variant checks the drained serialisation. Two further searches put a block rotation under polling readers (writer a few hundred bytes before the end of its block with unread entries in it): random schedules, and every schedule with at most two switches of one reader against one rotating producer.',
         'Yield points exist only where the engine holds no lock, so data races inside critical sections are outside the explored space. Overlapping reads are not ordered against each other.', '§5 C05'),
 'C04': ('E2', 'fault_enumeration', 'fault injection over generated workloads (H1 I/O seam: every I/O event of every append/batch fails with an errno or completes short) plus model-based histories with operations the engine must reject; FIFO model in which a failed call never happened',
         'Rejected operations (2001 entries, >10 GiB, >1 GiB entry, empty batch, over-long topic names) inside generated histories with restarts; and for generated workloads, every I/O event of every append / batch append (block write, io_uring SQE, submit, flush, file create/set_len/fsync, dir fsync - the latter reached by histories that first allocate 96..99 blocks) is made to fail or complete short, after which all later reads, appends, a drain, a fresh-process reopen and a second drain must agree with the model in which the failed call never happened.',
         'An injected fault stands for an I/O error reported by the kernel. Visibility of a successful batch to concurrent readers is checked by C05.', '§5 C04'),
 'C02': ('E1', 'exploration', 'metamorphic + model-based property testing (peek/consume pairs, erasure differential of non-consuming reads incl. reclamation bookkeeping via H3, content oracle for offset reads)',
         'Three relations on every generated history: each peek equals the immediately following consuming read; the same history with every peek and offset-addressed read erased must give identical consuming results, counts, WAL file count and per-file reclamation counters after a full drain; every element of an offset-addressed read is an appended payload of that topic (first element may be a suffix) in append order. The `restart-*` searches put clean restarts into the histories, so the erasure relation also covers the durable cursor and the counts / reclamation state rebuilt from it in the next lifetime (AtLeastOnce included).',
         'H3 (cfg walrus_verif) exposes the per-file counters read-only. File names are wall-clock based, so tracker views are compared as multisets.', '§5 C02'),
 'C07': ('E2', 'fault_enumeration', 'crash-point enumeration over generated workloads (H1 I/O seam: process exit before / in the middle of every foreground I/O event) with a prefix-closed recovery oracle',
         'For each generated workload all foreground I/O events are enumerated by a traced run; the workload is re-run with the process terminated before each selected event (torn variants for block writes), reopened in a fresh process and drained. Quick samples <=16 crash points per workload (stratified), thorough takes up to 400 (normally all). A second search (concurrent-producers) runs 2-3 producer threads under the H2 token scheduler with a generated schedule, kills the process at sampled I/O events of the concurrent phase (torn block writes included) and judges the recovered topics against the executor\'s invocation/return log: every append that had returned success, at most the in-flight ones, per-producer order, nothing else.',
         'Process-crash model: completed syscalls and completed stores into the shared mapping persist. Background-thread I/O is not numbered.', '§5 C07'),
 'C08': ('E2', 'fault_enumeration', 'crash-point enumeration inside and around generated batch appends (H1), all-or-nothing recovery oracle',
         'Crash points at every I/O event of every batch operation of generated workloads (per-entry block writes on mmap, j-of-n io_uring submissions on fd, submit, flush, publish); after recovery the topic must hold the acknowledged entries followed by all or none of the in-flight batch.',
         'While known finding C08-prefix (no commit record: a crash between the data writes of a multi-entry batch leaves a valid prefix) is open, crash points strictly between those writes are excluded from the main search and demonstrated by the probe; every other outcome is still a violation.', '§5 C08'),
 'C09': ('E2', 'fault_enumeration', 'crash-point enumeration at the persist steps of consuming reads (H1) with per-mode cursor-bound oracle',
         'Workloads mixing appends, read_next and consuming batch reads; crash before every I/O event of the reads (index tmp write, fsync, rename) and between operations; StrictlyAtOnce: resume exactly at the acknowledged consumption (in-flight read may go either way); AtLeastOnce: never a skip, read_next-only topics redeliver at most persist_every entries. A second search (concurrent-consumers) kills the process while producer and consumer threads run under a generated H2 schedule; the log of returned reads is the reference: StrictlyAtOnce never redelivers what a returned read delivered, neither mode skips more than the reads in flight may have taken.',
         'Same process-crash model as C07.', '§5 C09'),
 'C14': ('E1', 'exploration', 'grammar-based property testing of namespace keys through all six construction paths with a before/after directory-tree oracle',
         'Key strings from a character-class grammar plus special keys, each through one of six constructors; the whole scratch tree is snapshotted before and after; every new path must lie under <data dir>/<one component not in {"", ".", ".."}>/.',
         'NUL cannot travel through environment variables and is stripped for the env-based constructors.', '§5 C14'),
 'C16': ('E1', 'exploration', 'differential property testing (identical concrete history on the FD/io_uring backend and the mmap backend, response-by-response comparison)',
         'Every generated history (appends, batches spanning rotations, both read APIs, peeks, offset reads, counts, rejected operations, reopen events) is executed on the FD backend and the same concrete steps are replayed on the mmap backend in separate processes; every response must be equal (Ok/Err kind, entries by length+hash, counts).',
         'Errors are compared by ErrorKind. io_uring works in this sandbox, so the FD run really uses it.', '§5 C16'),
})
NOT_APPLICABLE = {
 'C19': 'needs the vendored openraft + octopii node/network to execute; none of their dependencies (tokio, futures, quinn, bincode, anyerror, ...) is available offline and a stand-in would replace the very thing under test; the "eventually applied" half is liveness (DESIGN.md §8)',
}

checks = []
for i in ids:
    if i in CHECKS:
        eng, cat, tech, text, note, ref = CHECKS[i]
        checks.append({
            'property_id': i,
            'quick_cmd': f'./check {i} --tier quick',
            'thorough_cmd': f'./check {i} --tier thorough',
            'evidence_file': f'/verif/evidence/{i}.json',
            'replay_cmd_template': './check --replay {path}',
            'engine': eng,
            'level_claimed': {'category': cat, 'text': text, 'design_ref': ref},
            'level_note': note,
            'technique': tech,
        })
na = []
for i in ids:
    if i not in CHECKS:
        na.append({'property_id': i, 'reason': NOT_APPLICABLE.get(i, 'check not built yet (work in progress in this session)')})

hooks_commits = []
hc = os.path.join(ROOT, 'hooks_commits.txt')
if os.path.exists(hc):
    hooks_commits = [l.split()[0] for l in open(hc) if l.strip()]

m = {
 'version': 1,
 'setup_cmd': './check --build',
 'hooks': {
   'guard': '--cfg walrus_verif (rustc cfg flag; all hook code in /repo is behind #[cfg(walrus_verif)])',
   'enable': 'RUSTFLAGS="--cfg walrus_verif" CARGO_TARGET_DIR=/verif/target-hooks cargo build --release --offline in /verif/harness (walrus-rust is a path dependency on /repo); hook-free checks use /verif/target-plain built without the flag',
   'baseline_off_cmd': 'cd /repo && TMPDIR=$(mktemp -d /var/tmp/wbase.XXXXXX) cargo nextest run --workspace --no-fail-fast --test-threads 8 --offline; rc=$?; rm -rf "$TMPDIR"; exit $rc',
   'source_commits': hooks_commits,
   'add_only': True,
 },
 'engines': [
   {'name': 'E1', 'path': 'harness/src/{absop,interp,model}.rs', 'serves_properties': ['C01','C02','C03','C06','C12','C14','C15','C16','C17'], 'kind_free_text': 'sequential model-based search: proptest-generated abstract histories, interpreted against a FIFO reference model, executed in child processes on the real engine'},
   {'name': 'E8', 'path': 'oct/src/{main,drv,snap}.rs, shims/{openraft,futures,tokio,bincode,octopii}', 'serves_properties': ['C21','C20'], 'kind_free_text': 'octopii wal/mod.rs (with its private Walrus copy) and openraft/storage.rs included unmodified; child process per lifetime; model of the acknowledged log-store state'},
   {'name': 'E7', 'path': 'dist/src/{sim,simdrv}.rs, shims/{tokio,octopii,bincode}', 'serves_properties': ['C22','C23','C24'], 'kind_free_text': 'deterministic cluster simulation: distributed-walrus sources unmodified on a stand-in single-threaded tokio with virtual time and a linearisable stand-in for octopii; one child process per case'},
   {'name': 'E6', 'path': 'dist/src/meta.rs', 'serves_properties': ['C18','C20','C25'], 'kind_free_text': 'in-process checks of distributed-walrus metadata.rs and controller/types.rs (#[path]-included unmodified, compiled against stand-in crates under /verif/shims)'},
   {'name': 'E5', 'path': 'harness/src/props/damage.rs', 'serves_properties': ['C11'], 'kind_free_text': 'directory mutation engine: E1 workload -> clean exit -> generated damage -> fresh process reads everything'},
   {'name': 'E4', 'path': 'harness/src/props/multi.rs', 'serves_properties': ['C13'], 'kind_free_text': 'multi-instance interpreter: one child process, several Walrus instances, one reference model per instance'},
   {'name': 'E3', 'path': 'harness/src/props/conc.rs, harness/src/props/crashconc.rs, harness/src/conc.rs', 'serves_properties': ['C05','C15','C07','C09'], 'kind_free_text': 'schedule-controlled concurrency: thread programs executed under the H2 token scheduler (cfg walrus_verif), schedules generated by proptest or enumerated with a preemption bound'},
   {'name': 'E2', 'path': 'harness/src/props/crash.rs', 'serves_properties': ['C04','C07','C08','C09','C10'], 'kind_free_text': 'crash-point enumeration: E1 workloads traced through the H1 I/O seam, re-executed with the process terminated at each selected event, recovered in a fresh process and judged against the acknowledged history'},
 ],
 'checks': checks,
 'not_applicable': na,
 'notes': 'Every check: exit 0 held / 1 VIOLATION line / 2 inconclusive or harness error. VERIF_SEED seeds all generators. known_findings.json lists open findings (probed on every run, printed as KNOWN-FINDING) and fixed ones.',
}
json.dump(m, open(os.path.join(ROOT, 'MANIFEST.json'), 'w'), indent=1)
print('checks:', len(checks), 'not_applicable:', len(na))

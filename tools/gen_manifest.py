#!/usr/bin/env python3
"""Regenerates /verif/MANIFEST.json from the table below (single source of truth)."""
import json, os
ROOT = os.path.dirname(os.path.dirname(os.path.abspath(__file__)))
props = [json.loads(l) for l in open(os.path.join(ROOT, 'properties.jsonl'))]
ids = [p['id'] for p in props]

# id -> (engine, category, technique, level text, level note, design_ref)
CHECKS = {
 'C01': ('E1', 'exploration', 'stateful model-based property testing (proptest histories vs FIFO reference model, child-process executor)',
         'Generated append/batch/read histories over several topics, three payload-size profiles reaching real 10 MiB block rotation and >10 MiB entries, both consistency modes and both backends, compared step by step with an independent FIFO model and drained at the end. Finds skipped/duplicated/reordered/corrupted entries; it cannot show their absence.',
         'Trusted: the reference model (model.rs), payload identification by (length, 64-bit hash), proptest. Bounded history length and sizes (<=25 MiB entries).', '§5 C01'),
 'C03': ('E1', 'exploration', 'model-based property testing with model-aimed budgets (validity predicate: cap, budget, progress)',
         'Batch-read dominated histories with budgets computed from the model (0, 1, len(next)±1, sum(next k)±1, usize::MAX) at generated cursor positions; validity predicate over every result.',
         'Progress is judged against the FIFO model; a content divergence (C01) ends the case without verdict.', '§5 C03'),
 'C06': ('E1', 'exploration', 'stateful model-based property testing with restart events (fresh process / in-process) and wall-clock regression between lifetimes',
         'Generated histories with 1..n reopen events, rejected operations and payloads from 0 B to 25 MiB; in StrictlyAtOnce mode the FIFO model simply ignores reopen events, in AtLeastOnce mode a candidate-set model allows the cursor to move back but never forward.',
         'Clean shutdown is a normal process exit or drop after all appends returned; durability below the page cache is C10.', '§5 C06'),
 'C17': ('E1', 'exploration', 'model-based property testing of marker histories with reopen at generated delays',
         'Histories over append/mark_clean/mark_dirty/is_clean/sleep/reopen with a probe of every topic after each reopen against a boolean-per-topic model; reopen happens at 0..250 ms after the last call, in a fresh process or in-process.',
         'After a failed append or an empty batch the marker state is unspecified and the model accepts either value until the next defining call.', '§5 C17'),
 'C15': ('E1', 'exploration', 'model-based property testing with count probes after every operation',
         'Count and count-map probes after every operation of generated histories with rejected operations, peeks, offset reads and restarts, compared with appended-consumed of the FIFO model.',
         'Counts after an AtLeastOnce restart are not judged.', '§5 C15'),
}
NOT_APPLICABLE = {
 'C19': 'needs the vendored openraft + octopii node/network to execute; none of their dependencies (tokio, futures, quinn, bincode, anyerror, ...) is available offline and a stand-in would replace the very thing under test; the "eventually applied" half is liveness (DESIGN.md §8)',
}

checks = []
for i in ids:
    if i in CHECKS:
        eng, cat, tech, text, note, ref = CHECKS[i]
        checks.append({
            'property_id': i,
            'quick_cmd': f'./check {i} --tier quick',
            'thorough_cmd': f'./check {i} --tier thorough',
            'evidence_file': f'/verif/evidence/{i}.json',
            'replay_cmd_template': './check --replay {path}',
            'engine': eng,
            'level_claimed': {'category': cat, 'text': text, 'design_ref': ref},
            'level_note': note,
            'technique': tech,
        })
na = []
for i in ids:
    if i not in CHECKS:
        na.append({'property_id': i, 'reason': NOT_APPLICABLE.get(i, 'check not built yet (work in progress in this session)')})

hooks_commits = []
hc = os.path.join(ROOT, 'hooks_commits.txt')
if os.path.exists(hc):
    hooks_commits = [l.split()[0] for l in open(hc) if l.strip()]

m = {
 'version': 1,
 'setup_cmd': './check --build',
 'hooks': {
   'guard': '--cfg walrus_verif (rustc cfg flag; all hook code in /repo is behind #[cfg(walrus_verif)])',
   'enable': 'RUSTFLAGS="--cfg walrus_verif" CARGO_TARGET_DIR=/verif/target-hooks cargo build --release --offline in /verif/harness (walrus-rust is a path dependency on /repo); hook-free checks use /verif/target-plain built without the flag',
   'baseline_off_cmd': 'cd /repo && TMPDIR=$(mktemp -d /var/tmp/wbase.XXXXXX) cargo nextest run --workspace --no-fail-fast --test-threads 8 --offline; rc=$?; rm -rf "$TMPDIR"; exit $rc',
   'source_commits': hooks_commits,
   'add_only': True,
 },
 'engines': [
   {'name': 'E1', 'path': 'harness/src/{absop,interp,model}.rs', 'serves_properties': ['C01','C02','C03','C06','C14','C15','C16','C17'], 'kind_free_text': 'sequential model-based search: proptest-generated abstract histories, interpreted against a FIFO reference model, executed in child processes on the real engine'},
 ],
 'checks': checks,
 'not_applicable': na,
 'notes': 'Every check: exit 0 held / 1 VIOLATION line / 2 inconclusive or harness error. VERIF_SEED seeds all generators. known_findings.json lists open findings (probed on every run, printed as KNOWN-FINDING) and fixed ones.',
}
json.dump(m, open(os.path.join(ROOT, 'MANIFEST.json'), 'w'), indent=1)
print('checks:', len(checks), 'not_applicable:', len(na))

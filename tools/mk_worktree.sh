#!/bin/bash
# usage: mk_worktree.sh <name>   -> creates /tmp/wt-<name> (detached worktree of /repo HEAD) with a warm copy of the build cache
set -e
n="$1"; d="/tmp/wt-$n"
git -C /repo worktree remove --force "$d" 2>/dev/null || true
rm -rf "$d"
git -C /repo worktree add --detach "$d" HEAD >/dev/null
cp -a /repo/target "$d/target"
echo "$d"

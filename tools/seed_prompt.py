#!/usr/bin/env python3
"""prints the prompt for a seeding sub-agent: seed_prompt.py <Cxx> [worktree]"""
import json, sys
pid = sys.argv[1]
wt = sys.argv[2] if len(sys.argv) > 2 else f"/tmp/wt-{pid}"
p = [json.loads(l) for l in open('/verif/properties.jsonl') if json.loads(l)['id'] == pid][0]
print(f"""You are helping evaluate a test suite for the Rust project nubskr/walrus (a write-ahead-log / log storage engine: mmap and io_uring block storage, per-topic read cursors, crash recovery; plus a distributed layer in distributed-walrus/ and octopii/). A scratch git worktree of the project is at {wt} (with a warm build cache in {wt}/target). Work ONLY inside {wt}; never read or touch /repo or /verif.

The project is supposed to satisfy this semantic property:

  {p['title']}
  {p['statement']}

Your job: make ONE realistic source change ("seeded defect") under {wt} that BREAKS this property, while the project still compiles and its existing test suite still passes. The change should look like a plausible maintainer mistake or mis-optimisation (a dropped condition, an off-by-one at a boundary, a wrong ordering of two steps, a missing re-check, a stale cached value, ...), not sabotage that ordinary use would expose at once. It must need something specific to manifest: a particular multi-step sequence of operations, a size or budget at a boundary, a crash / fault / restart at a particular point, a particular interleaving, an unusual input, or two cooperating sites that each look fine alone. Keep it small (ideally < 25 changed lines). Do not edit existing tests, do not touch anything behind `#[cfg(walrus_verif)]` (that is unrelated instrumentation; leave it alone and do not rely on it), do not change public API signatures.

Then write a demonstration: a NEW integration test file under {wt}/tests/ (or a small example program) that FAILS with your change applied and PASSES on the unchanged code. Verify both directions yourself: save your change with `git diff -- src > /tmp/<yourname>.diff` and switch with `git apply -R` / `git apply` (do NOT use `git stash`: the stash is shared between all worktrees of this repository and other people are working in sibling worktrees); keep the demonstration file in both cases.

Practical notes:
 * No network. Always build offline: `cd {wt} && CARGO_NET_OFFLINE=true cargo build --offline`; run one test file with `CARGO_NET_OFFLINE=true cargo test --offline --test <name> -- --nocapture`.
 * Tests write large temporary data. ALWAYS run tests with a private TMPDIR and delete it afterwards, e.g. `export TMPDIR=$(mktemp -d /var/tmp/seed-{pid}.XXXXXX)` ... `rm -rf "$TMPDIR"`. Many tests use the env var WALRUS_DATA_DIR or the relative directory `wal_files/`; look at how existing tests isolate themselves (tests/ directory) and do the same in your demonstration (unique directory per test, removed at the end).
 * Full existing suite (takes 10-20 minutes, run it once at the end with your change applied): `cd {wt} && TMPDIR=$TMPDIR cargo nextest run --workspace --no-fail-fast --test-threads 6 --offline 2>&1 | tail -60`. The file /root/.vp/BASELINE.json lists which tests are expected to pass (`stable_pass`, 146 tests) and which are known flaky / always failing in this sandbox (`flaky`, `always_fail`) - only the stable_pass ones matter: all of them must still pass with your change. If one fails, refine or replace the change.
 * The machine is shared with other jobs: do not use more than 6 test threads, and expect timing-sensitive tests to be a little slow.
 * The core engine lives in {wt}/src/wal (runtime/walrus.rs, walrus_read.rs, walrus_write.rs, writer.rs, allocator.rs, index.rs, topic_clean.rs, background.rs, block.rs, paths.rs, config.rs). distributed-walrus/ and octopii/ cannot be built as cargo packages here (missing offline dependencies such as tokio) - if the property concerns them, make the change in their sources anyway and write the demonstration as a self-contained Rust test that `#[path]`-includes what it can, or, if that is impossible, as a precise written scenario; say clearly which it is.

When done, leave in {wt}:
 * the source change as an UNCOMMITTED working-tree modification, and also saved as {wt}/SEED/patch.diff (`git diff -- . ':!tests' ':!SEED' > SEED/patch.diff`, source files only - the patch must apply to a clean checkout with `git apply`);
 * the demonstration copied to {wt}/SEED/ (e.g. SEED/demo_test.rs) and in place under tests/;
 * {wt}/SEED/REPORT.md: what the change is and why it breaks the property, exactly what is needed for it to manifest, the commands you ran and their results (demo fails with the change, passes without; full suite result with the list of any failing tests and whether each is in stable_pass).
(create REPORT.md with a shell heredoc - `cat > SEED/REPORT.md <<'EOF' ... EOF` - the file-write tool may refuse report files).
Delete your TMPDIR. Reply with a short summary of the same.""")

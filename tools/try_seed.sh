#!/bin/bash
# usage: try_seed.sh <seeded/dir> <Cxx> [<Cxx>...]  — applies the seed to /repo, runs the quick checks, restores /repo.
# Results: <seeded/dir>/detect.log (one line per check), violation replays moved to <seeded/dir>/caught-<Cxx>.json
sd="$(cd "$1" && pwd)"; shift
cd /verif
if ! git -C /repo diff --quiet; then echo "/repo has uncommitted changes; refusing"; exit 2; fi
git -C /repo apply "$sd/patch.diff" || { echo "patch does not apply"; exit 2; }
trap 'git -C /repo checkout -- . ' EXIT
for c in "$@"; do
  mkdir -p /var/tmp/seed-evidence; cp evidence/$c.json /var/tmp/seed-evidence/$c.json 2>/dev/null
  before=$(ls replays/$c/viol-* 2>/dev/null | sort)
  t0=$(date +%s)
  out=$(VERIF_SEED=${VERIF_SEED:-0} ./check $c --tier ${TIER:-quick} 2>&1); rc=$?
  t1=$(date +%s)
  line=$(echo "$out" | grep -E "^(VIOLATION|OK|INCONCLUSIVE|BUILD-FAILED)" | head -1)
  msg=$(echo "$out" | grep -A1 "^VIOLATION" | tail -1 | cut -c1-300)
  echo "$(date +%H:%M) $c rc=$rc $((t1-t0))s $line | $msg" | tee -a "$sd/detect.log"
  for f in $(ls replays/$c/viol-* 2>/dev/null | sort); do
    case "$before" in *"$f"*) ;; *) mv "$f" "$sd/caught-$c.json";; esac
  done
  cp /var/tmp/seed-evidence/$c.json evidence/$c.json 2>/dev/null
done

#!/bin/bash
# usage: confirm_seed.sh <name> <demo-test-name> [nosuite]
# In /tmp/wt-<name>: demo must pass without the source change and fail with it; the pinned suite's
# stable_pass tests must pass with it. Writes /tmp/wt-<name>/CONFIRM.txt.
n="$1"; demo="$2"; d="/tmp/wt-$n"; out="$d/CONFIRM.txt"
cd "$d" || exit 2
export CARGO_NET_OFFLINE=true
export TMPDIR=$(mktemp -d /var/tmp/confirm-$n.XXXXXX)
: > "$out"
git apply --check -R SEED/patch.diff 2>/dev/null || { echo "patch.diff is not what is applied in the working tree" >> "$out"; }
git apply -R SEED/patch.diff || { echo "cannot reverse patch" >> "$out"; exit 2; }
cargo test --offline --test "$demo" > "$d/demo_without.log" 2>&1; rc0=$?
git apply SEED/patch.diff
cargo test --offline --test "$demo" > "$d/demo_with.log" 2>&1; rc1=$?
echo "demo without change: rc=$rc0 (expect 0); with change: rc=$rc1 (expect != 0)" >> "$out"
grep -E "^test result|panicked at|FAILED|failed" "$d/demo_with.log" | head -8 >> "$out"
if [ "${3:-}" != "nosuite" ]; then
  cfg=""; [ -f /w/lib/nextest.toml ] && cfg="--tool-config-file pb:/w/lib/nextest.toml --profile pb"
  cargo nextest run --workspace --no-fail-fast $cfg --test-threads 6 --offline > "$d/suite.log" 2>&1
  python3 - "$d/target/nextest/pb/junit.xml" >> "$out" <<'PY'
import json,sys,xml.etree.ElementTree as ET
base=json.load(open('/root/.vp/BASELINE.json')); stable=set(base['stable_pass'])
res={}
for tc in ET.parse(sys.argv[1]).getroot().iter('testcase'):
    tid=(tc.get('classname') or '')+'::'+(tc.get('name') or '')
    res[tid]='FAIL' if any(ch.tag in ('failure','error') for ch in tc) else 'PASS'
bad=[t for t in stable if res.get(t)!='PASS']
print("suite with change: stable tests:",len(stable),"not passing:",len(bad), sorted((b,res.get(b)) for b in bad))
PY
fi
rm -rf "$TMPDIR"
cat "$out"

#!/bin/bash
# Runs the repository's pinned suite with the hook guard OFF and compares with BASELINE.json's stable_pass list.
# usage: tools/run_baseline.sh [out-dir]
OUT="${1:-/var/tmp/wbase-out}"
mkdir -p "$OUT"
export TMPDIR=$(mktemp -d /var/tmp/wbase.XXXXXX)
cd /repo
cfg=""
[ -f /w/lib/nextest.toml ] && cfg="--tool-config-file pb:/w/lib/nextest.toml --profile pb"
CARGO_NET_OFFLINE=true cargo nextest run --workspace --no-fail-fast $cfg --test-threads 8 --offline > "$OUT/nextest.log" 2>&1
rc=$?
rm -rf "$TMPDIR"
python3 - "$OUT/nextest.log" <<'PY'
import json,re,sys
log=open(sys.argv[1]).read()
base=json.load(open('/root/.vp/BASELINE.json'))
stable=set(base['stable_pass'])
res={}
for m in re.finditer(r'^\s+(PASS|FAIL|SIGABRT|SIGSEGV|TIMEOUT|LEAK)\s+\[[^\]]*\]\s+(\S+)\s+(\S+)', log, re.M):
    st, binid, name = m.groups()
    res[f"{binid}::{name}"]=st
# names in baseline look like walrus-rust::batch_read::test ; nextest prints "walrus-rust::batch_read test"
def norm(k): return k
bad=[t for t in stable if res.get(t) not in ('PASS','LEAK')]
print("stable tests:",len(stable),"not passing:",len(bad))
for b in sorted(bad): print("  ",b,res.get(b))
PY
exit $rc

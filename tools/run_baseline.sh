#!/bin/bash
# Runs the repository's pinned suite with the hook guard OFF and compares with BASELINE.json's stable_pass list.
# usage: tools/run_baseline.sh [out-dir]
OUT="${1:-/var/tmp/wbase-out}"
mkdir -p "$OUT"
export TMPDIR=$(mktemp -d /var/tmp/wbase.XXXXXX)
cd /repo
cfg=""
[ -f /w/lib/nextest.toml ] && cfg="--tool-config-file pb:/w/lib/nextest.toml --profile pb"
CARGO_NET_OFFLINE=true cargo nextest run --workspace --no-fail-fast $cfg --test-threads 8 --offline > "$OUT/nextest.log" 2>&1
rc=$?
rm -rf "$TMPDIR"
cp /repo/target/nextest/pb/junit.xml "$OUT/junit.xml" 2>/dev/null
python3 - "$OUT/junit.xml" <<'PY'
import json,sys,xml.etree.ElementTree as ET
base=json.load(open('/root/.vp/BASELINE.json'))
stable=set(base['stable_pass'])
res={}
for tc in ET.parse(sys.argv[1]).getroot().iter('testcase'):
    tid=(tc.get('classname') or '')+'::'+(tc.get('name') or '')
    bad=any(ch.tag in ('failure','error') for ch in tc)
    res[tid]='FAIL' if bad else 'PASS'
bad=[t for t in stable if res.get(t)!='PASS']
print("stable tests:",len(stable),"not passing:",len(bad))
for b in sorted(bad): print("  ",b,res.get(b))
extra=[t for t,v in res.items() if v=='FAIL' and t not in stable]
print("failing outside the stable list (baseline flaky/always-fail):",sorted(extra))
sys.exit(1 if bad else 0)
PY
exit $?
